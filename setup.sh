#!/bin/bash
# One-time offline build of the framework (warms the Go build cache; ./check rebuilds on every run anyway).
set -e
cd "$(dirname "$0")"
export GOFLAGS=-mod=mod GOPROXY=off GOSUMDB=off GOTOOLCHAIN=local
mkdir -p bin evidence
cat /repo/go.sum harness/go.sum.extra 2>/dev/null | sort -u > harness/go.sum
(cd harness && go build -tags verif -o ../bin/vcheck ./cmd/vcheck)
(cd harness && go build -race -tags verif -o ../bin/vcheck.race ./cmd/vcheck)
echo "setup ok"
