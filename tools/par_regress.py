#!/usr/bin/env python3
"""tools/par_regress.py <seed> <lanes> [id-prefix ...] — dry run of the seeded-change archive at another VERIF_SEED, in parallel.

Each lane is a scratch copy under /tmp/par/<k>/ (a git worktree of /repo at HEAD plus a copy of the harness whose go.mod
points at that worktree), so /repo and /verif are not touched and nothing is written to the meta.json files. The purpose is
to find seeded changes that the canonical run (tools/seeded_regress.py, seed 20260925) catches only by luck.
Results: /tmp/par/results_<seed>.json; lanes are removed at the end."""
import json, os, re, shutil, subprocess, sys, threading, queue

seed, lanes = sys.argv[1], int(sys.argv[2])
write = '--write' in sys.argv  # record the results in the meta.json files (canonical seed only) like tools/seeded_regress.py does
sel = [a for a in sys.argv[3:] if not a.startswith('--')]
head = subprocess.run(['git', '-C', '/repo', 'rev-parse', '--short', 'HEAD'], stdout=subprocess.PIPE).stdout.decode().strip()
vhead = subprocess.run(['git', '-C', '/verif', 'rev-parse', '--short', 'HEAD'], stdout=subprocess.PIPE).stdout.decode().strip()
root = '/verif/seeded'
sys.path.insert(0, '/verif/tools')
src = open('/verif/tools/seeded_regress.py').read()
extra = eval(re.search(r'^extra = (\{.*?\})\n', src, re.S | re.M).group(1))
env = dict(os.environ, GOFLAGS='-mod=mod', GOPROXY='off', GOSUMDB='off', GOTOOLCHAIN='local', VERIF_SEED=seed)


def sh(cmd, cwd=None, e=None):
    p = subprocess.run(cmd, shell=True, cwd=cwd, env=e or env, stdout=subprocess.PIPE, stderr=subprocess.STDOUT)
    return p.returncode, p.stdout.decode(errors='replace')


def mklane(k):
    base = '/tmp/par/%d' % k
    shutil.rmtree(base, ignore_errors=True)
    os.makedirs(base + '/verif')
    sh('git -C /repo worktree prune; git -C /repo worktree add --detach %s/repo HEAD' % base)
    for f in ['check', 'harness', 'known_findings.json', 'properties.jsonl', 'MANIFEST.json']:
        sh('cp -r /verif/%s %s/verif/' % (f, base))
    sh("sed -i 's#=> /repo#=> %s/repo#' %s/verif/harness/go.mod" % (base, base))
    sh("sed -i 's#/repo/go.sum#%s/repo/go.sum#' %s/verif/check" % (base, base))
    return base


how = 'tools/par_regress.py: in a scratch git worktree of /repo at HEAD: git apply patch.diff; ./check <Cxx> --tier quick (seed %s) from a copy of /verif/harness built against that worktree; git checkout -- .' % seed
jobs = queue.Queue()
for mid in sorted(os.listdir(root)):
    d = os.path.join(root, mid)
    if not os.path.isfile(d + '/patch.diff') or (sel and not any(mid.startswith(s) for s in sel)):
        continue
    meta = json.load(open(d + '/meta.json'))
    jobs.put((mid, meta['property'], [meta['property']] + extra.get(mid, []), meta))
results, lock = {}, threading.Lock()


def worker(k):
    base = mklane(k)
    e = dict(env, VERIF_DIR=base + '/verif')
    while True:
        try:
            mid, prop, props, meta = jobs.get_nowait()
        except queue.Empty:
            break
        rc, _ = sh('git apply --check %s/%s/patch.diff' % (root, mid), cwd=base + '/repo')
        if rc != 0:
            with lock:
                results[mid] = {'status': 'does-not-apply'}
                if write:
                    meta['checks_run_against_it'] = {'how': how, 'repo_head': head, 'verif_head': vhead, 'status': 'patch-does-not-apply-to-current-HEAD', 'results': {}}
                    meta['detected_by_own_property_check'] = False
                    json.dump(meta, open('%s/%s/meta.json' % (root, mid), 'w'), indent=1)
            continue
        sh('git apply %s/%s/patch.diff' % (root, mid), cwd=base + '/repo')
        det = {}
        for p in props:
            rc, out = sh('./check %s --tier quick' % p, cwd=base + '/verif', e=e)
            det[p] = {'exit': rc, 'signatures': sorted(set(re.findall(r'^violation: property=\S+ signature=(\S+)', out, re.M))), 'inconclusive': bool(re.search(r'^INCONCLUSIVE', out, re.M))}
        sh('git checkout -- . && git clean -fdq', cwd=base + '/repo')
        with lock:
            if write:
                meta['checks_run_against_it'] = {'how': how, 'repo_head': head, 'verif_head': vhead, 'status': 'ran', 'results': det}
                meta['detected_by_own_property_check'] = det.get(prop, {}).get('exit') == 1
                json.dump(meta, open('%s/%s/meta.json' % (root, mid), 'w'), indent=1)
            results[mid] = {'status': 'ran', 'results': det}
            print(mid, {p: (v['exit'], v['signatures'][:2]) for p, v in det.items()}, flush=True)
    sh('git -C /repo worktree remove --force %s/repo' % base)
    shutil.rmtree(base, ignore_errors=True)


ts = [threading.Thread(target=worker, args=(k,)) for k in range(lanes)]
[t.start() for t in ts]
[t.join() for t in ts]
sh('git -C /repo worktree prune')
json.dump(results, open('/tmp/par/results_%s.json' % seed, 'w'), indent=1)
print('\n== not caught by any of the checks run (seed %s) ==' % seed)
for mid in sorted(results):
    r = results[mid]
    meta = json.load(open('%s/%s/meta.json' % (root, mid)))
    if r['status'] != 'ran':
        print(mid, r['status'], 'superseded' if meta.get('superseded_by_fix') else '')
        continue
    if not any(v['exit'] == 1 for v in r['results'].values()):
        note = [k for k in ('not_decided', 'not_reachable', 'neutralised_by_fix') if meta.get(k)]
        print(mid, {p: v['exit'] for p, v in r['results'].items()}, note)
