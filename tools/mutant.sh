#!/bin/bash
# tools/mutant.sh <patch.diff> <Cxx> [more Cxx...]  — apply a seeded change to /repo, run the quick checks, undo.
set -u
PATCH="$1"; shift
cd /repo || exit 2
if ! git diff --quiet; then echo "/repo has uncommitted changes"; exit 2; fi
if ! git apply --check "$PATCH" 2>/dev/null; then echo "PATCH DOES NOT APPLY: $PATCH"; exit 2; fi
git apply "$PATCH"
trap 'git -C /repo checkout -- . >/dev/null 2>&1' EXIT
for P in "$@"; do
  OUT=$(cd /verif && VERIF_DIR=/verif ./check "$P" --tier "${TIER:-quick}" 2>&1)
  RC=$?
  SIGS=$(echo "$OUT" | grep '^violation:' | sed 's/ case=.*//' | sort -u | tr '\n' ';')
  echo "$P rc=$RC $(echo "$OUT" | grep -E '^C[0-9]+ tier' | sed 's/^C[0-9]* //') :: $SIGS $(echo "$OUT" | grep -c '^INCONCLUSIVE' | sed 's/^0$//;s/^\([1-9].*\)$/inconclusive=\1/')"
done
