#!/bin/bash
# Runs the repository's pinned suite (guard off) and compares with /root/.vp/BASELINE.json stable_pass.
export GOFLAGS=-mod=mod GOPROXY=off GOSUMDB=off GOTOOLCHAIN=local
cd /repo && go test -mod=mod -json -vet=off -count=1 -timeout 25m ./... > /tmp/baseline.$$.json 2>/dev/null
python3 - /tmp/baseline.$$.json <<'PY'
import json,sys
passed=set()
for l in open(sys.argv[1]):
    try: e=json.loads(l)
    except: continue
    if e.get('Action')=='pass' and e.get('Test'):
        passed.add(e['Package']+'::'+e['Test'])
base=set(json.load(open('/root/.vp/BASELINE.json'))['stable_pass'])
missing=sorted(base-passed)
print("baseline stable_pass: %d, passed now: %d, missing: %d"%(len(base),len(passed&base),len(missing)))
for m in missing[:20]: print("  MISSING",m)
sys.exit(1 if missing else 0)
PY
rc=$?
rm -f /tmp/baseline.$$.json
exit $rc
