#!/bin/bash
# tools/sweep.sh <tier> <seed> [props...] — run checks one after another, print one line per check (+ violations/inconclusive)
TIER=${1:-quick}; SEED=${2:-20260925}; shift 2
PROPS=${@:-C01 C02 C03 C04 C05 C06 C07 C08 C09 C10 C11 C12 C13 C14 C15 C16 C17 C18 C19 C20}
for P in $PROPS; do
  OUT=$(VERIF_SEED=$SEED ./check $P --tier $TIER 2>&1); RC=$?
  echo "rc=$RC $(echo "$OUT" | grep -E '^C[0-9]+ tier')"
  echo "$OUT" | grep -E -A1 '^violation|^INCONCLUSIVE|BUILD FAILED' | cut -c1-600
done
