package storechk

import (
	"bufio"
	"bytes"
	"encoding/base64"
	"encoding/json"
	"fmt"
	"math"
	"runtime"
	"strings"
	"sync"

	dbm "github.com/tendermint/tm-db"

	"verif/harness/sim"

	"github.com/pokt-network/posmint/store/cachekv"
	"github.com/pokt-network/posmint/store/dbadapter"
	"github.com/pokt-network/posmint/store/gaskv"
	"github.com/pokt-network/posmint/store/prefix"
	"github.com/pokt-network/posmint/store/tracekv"
	stypes "github.com/pokt-network/posmint/store/types"
)

// WProg: one program against a stack of wrappers over a MemDB-backed parent.
type WProg struct {
	Prefix  B            `json:"prefix"`
	Parent  map[B]string `json:"parent"`  // full parent keys (inside and outside the prefix)
	Stack   []string     `json:"stack"`   // outermost first, e.g. ["gas","trace","prefix"]; "cache" allowed below gas/trace
	Limit   uint64       `json:"limit"`   // gas limit (0 = infinite meter)
	Preload uint64       `json:"preload"` // gas consumed before the program starts
	Ops     []COp        `json:"ops"`
}

var wPrefixes = []string{"", "\x00", "\x01", "a/", "\xff", "\xff\xff", "\x01\xff", "ab"}
var wKeys = []string{"", "a", "b", "k", "\x00", "\xff", "\xff\xff", "zz", "a/", "x\x00"}
var wOutside = []string{"a", "a.", "a0", "b", "\x00", "\x01", "\x02", "\xfe", "\xff", "\xff\xfe", "\x01\xfe", "\x02\x00", "aa", "ac", "\x00\xff"}

func GenWProg(r *sim.Rand) WProg {
	p := WProg{Prefix: B(wPrefixes[r.Intn(len(wPrefixes))]), Parent: map[B]string{}}
	for i := 0; i < 3+r.Intn(8); i++ {
		p.Parent[p.Prefix+B(wKeys[r.Intn(len(wKeys))])] = fmt.Sprintf("in%d", i)
	}
	for i := 0; i < 2+r.Intn(6); i++ {
		p.Parent[B(wOutside[r.Intn(len(wOutside))])] = fmt.Sprintf("out%d", i)
	}
	delete(p.Parent, B(""))
	switch r.Intn(8) {
	case 0:
		p.Stack = []string{"prefix"}
	case 1:
		p.Stack = []string{"gas", "prefix"}
	case 2:
		p.Stack = []string{"trace", "prefix"}
	case 3:
		p.Stack = []string{"gas", "trace", "prefix"}
	case 4:
		p.Stack = []string{"prefix", "gas"}
	case 5:
		p.Stack = []string{"gas", "prefix", "cache"}
	case 6:
		p.Stack = []string{"trace", "gas", "prefix"}
	case 7:
		p.Stack = []string{"gas"}
		p.Prefix = ""
	}
	n := 4 + r.Intn(30)
	for i := 0; i < n; i++ {
		k := wKeys[r.Intn(len(wKeys))]
		if k == "" {
			k = "e"
		}
		var o COp
		switch x := r.Intn(100); {
		case x < 20:
			o = COp{Op: "get", Key: B(k)}
		case x < 30:
			o = COp{Op: "has", Key: B(k)}
		case x < 55:
			o = COp{Op: "set", Key: B(k), Val: strings.Repeat("v", r.Intn(40)) + fmt.Sprint(i)}
		case x < 68:
			o = COp{Op: "del", Key: B(k)}
		case x < 84:
			o = COp{Op: "iter", Start: genWBound(r), End: genWBound(r)}
		default:
			o = COp{Op: "riter", Start: genWBound(r), End: genWBound(r)}
		}
		p.Ops = append(p.Ops, o)
	}
	return p
}

func genWBound(r *sim.Rand) *B {
	switch r.Intn(5) {
	case 0, 1:
		return nil
	case 2:
		return strp(wKeys[1+r.Intn(len(wKeys)-1)] + "\x00")
	default:
		return strp(wKeys[1+r.Intn(len(wKeys)-1)])
	}
}

type gasRef struct {
	cfg      stypes.GasConfig
	limit    uint64
	consumed uint64
	infinite bool
}

// charge returns "", "overflow" or "outofgas" for one ConsumeGas call (the documented meter behaviour).
func (g *gasRef) charge(n uint64) string {
	if math.MaxUint64-g.consumed < n {
		g.consumed = 0
		return "overflow"
	}
	g.consumed += n
	if !g.infinite && g.consumed > g.limit {
		return "outofgas"
	}
	return ""
}

type traceLine struct {
	Operation string `json:"operation"`
	Key       string `json:"key"`
	Value     string `json:"value"`
}

// RunWProg executes the program and checks prefix isolation, gas accounting and the trace.
// costOnly: when >0 the program is first measured with an infinite meter (for limit selection).
func RunWProg(p *WProg, rep Reporter) (totalGas uint64) { return RunWProgCum(p, rep, nil) }

// RunWProgCum additionally records the reference's cumulative gas after every operation.
func RunWProgCum(p *WProg, rep Reporter, cum *[]uint64) (totalGas uint64) {
	db := dbm.NewMemDB()
	parent := dbadapter.Store{DB: db}
	model := smap{}
	for k, v := range p.Parent {
		parent.Set([]byte(k), []byte(v))
		model[string(k)] = v
	}
	var st stypes.KVStore = parent
	hasGas, hasTrace, hasPrefix := false, false, false
	var meter stypes.GasMeter
	var tbuf bytes.Buffer
	var cacheLayer *cachekv.Store
	cfg := stypes.KVGasConfig()
	// build from the innermost (last) to the outermost (first)
	for i := len(p.Stack) - 1; i >= 0; i-- {
		switch p.Stack[i] {
		case "prefix":
			st = prefix.NewStore(st, []byte(p.Prefix))
			hasPrefix = true
		case "cache":
			cacheLayer = cachekv.NewStore(st)
			st = cacheLayer
		case "gas":
			if p.Limit == 0 {
				meter = stypes.NewInfiniteGasMeter()
			} else {
				meter = stypes.NewGasMeter(p.Limit)
			}
			if p.Preload > 0 {
				safely(func() { meter.ConsumeGas(p.Preload, "preload") })
			}
			st = gaskv.NewStore(st, meter, cfg)
			hasGas = true
		case "trace":
			st = tracekv.NewStore(st, &tbuf, nil)
			hasTrace = true
		}
	}
	pfx := ""
	if hasPrefix {
		pfx = string(p.Prefix)
	}
	gasAboveTrace := false
	gi, ti := -1, -1
	for i, l := range p.Stack {
		if l == "gas" {
			gi = i
		}
		if l == "trace" {
			ti = i
		}
	}
	if gi >= 0 && ti >= 0 && gi < ti {
		gasAboveTrace = true // the gas wrapper's own Value() reads pass through the trace store
	}
	// a cache layer sits *inside* the prefix only when it comes after it in Stack; model it as write-through
	// because the final comparison happens after Write()
	ref := &gasRef{cfg: cfg, limit: p.Limit, infinite: p.Limit == 0}
	if hasGas && p.Preload > 0 {
		ref.charge(p.Preload)
	}
	view := func() smap { // what the wrapped store must expose
		v := smap{}
		for k, val := range model {
			if strings.HasPrefix(k, pfx) {
				v[k[len(pfx):]] = val
			}
		}
		return v
	}
	var wantTrace []traceLine
	tr := func(op, k, v string, kset, vset bool) {
		if !hasTrace {
			return
		}
		l := traceLine{Operation: op}
		if kset {
			l.Key = base64.StdEncoding.EncodeToString([]byte(k))
		}
		if vset {
			l.Value = base64.StdEncoding.EncodeToString([]byte(v))
		}
		wantTrace = append(wantTrace, l)
	}
	// gas charges only apply when the gas layer is outside the trace layer or vice versa: both see every op once
	bad := func(i int, o COp, sig, msg string) {
		rep.Violate("C16", sig, fmt.Sprintf("op #%d %s key %q (stack %v, prefix %q, limit %d): %s", i, o.Op, o.Key, p.Stack, p.Prefix, p.Limit, msg))
	}
	dead := false
	for i, o := range p.Ops {
		if dead {
			break
		}
		v := view()
		var expectPanic string // "", "outofgas", "overflow"
		var apply func()
		var check func()
		var got struct {
			val   []byte
			has   bool
			pairs [][2]string
		}
		gasSteps := func(costs ...uint64) {
			if !hasGas {
				return
			}
			for _, c := range costs {
				if expectPanic != "" {
					return
				}
				expectPanic = ref.charge(c)
			}
		}
		switch o.Op {
		case "get":
			want, ok := v[string(o.Key)]
			gasSteps(cfg.ReadCostFlat, cfg.ReadCostPerByte*uint64(len(want)))
			tr("read", string(o.Key), want, true, true)
			apply = func() { got.val = st.Get([]byte(o.Key)) }
			check = func() {
				if ok != (got.val != nil) || (ok && string(got.val) != want) {
					bad(i, o, "result-mismatch/get", fmt.Sprintf("Get = %q, model %q (present %v)", got.val, want, ok))
				}
			}
		case "has":
			_, ok := v[string(o.Key)]
			gasSteps(cfg.HasCost)
			apply = func() { got.has = st.Has([]byte(o.Key)) }
			check = func() {
				if got.has != ok {
					bad(i, o, "result-mismatch/has", fmt.Sprintf("Has = %v, model %v", got.has, ok))
				}
			}
		case "set":
			gasSteps(cfg.WriteCostFlat, cfg.WriteCostPerByte*uint64(len(o.Val)))
			if expectPanic == "" {
				model[pfx+string(o.Key)] = o.Val
			}
			tr("write", string(o.Key), o.Val, true, true)
			apply = func() { st.Set([]byte(o.Key), []byte(o.Val)) }
		case "del":
			gasSteps(cfg.DeleteCost)
			if expectPanic == "" {
				delete(model, pfx+string(o.Key))
			}
			tr("delete", string(o.Key), "", true, false)
			apply = func() { st.Delete([]byte(o.Key)) }
		case "iter", "riter":
			asc := o.Op == "iter"
			want := v.rng(o.Start, o.End, asc)
			// gas: seek charge at creation if valid, then in Next for the current value before advancing
			if len(want) > 0 {
				if gasAboveTrace {
					tr("iterValue", "", want[0][1], false, true)
				}
				gasSteps(cfg.ReadCostPerByte*uint64(len(want[0][1])), cfg.IterNextCostFlat)
			}
			yielded := 0
			for j := range want {
				if expectPanic != "" {
					break
				}
				// the loop body reads key and value of item j, then calls Next (charging item j again)
				tr("iterKey", want[j][0], "", true, false)
				tr("iterValue", "", want[j][1], false, true)
				yielded++
				if gasAboveTrace {
					tr("iterValue", "", want[j][1], false, true)
				}
				gasSteps(cfg.ReadCostPerByte*uint64(len(want[j][1])), cfg.IterNextCostFlat)
			}
			apply = func() {
				var it stypes.Iterator
				if asc {
					it = st.Iterator(bnd(o.Start), bnd(o.End))
				} else {
					it = st.ReverseIterator(bnd(o.Start), bnd(o.End))
				}
				defer it.Close()
				for ; it.Valid(); it.Next() {
					k := string(it.Key())
					val := string(it.Value())
					got.pairs = append(got.pairs, [2]string{k, val})
				}
			}
			check = func() {
				if !eqPairs(got.pairs, want) {
					bad(i, o, "result-mismatch/"+o.Op, fmt.Sprintf("range [%v,%v) yields %q, model %q", fmtB(o.Start), fmtB(o.End), got.pairs, want))
				}
			}
			if expectPanic != "" {
				want = want[:yielded]
				check = func() {
					if !eqPairs(got.pairs, want) {
						bad(i, o, "gas-position/"+o.Op, fmt.Sprintf("out of gas expected after %d items, iterator yielded %q", yielded, got.pairs))
					}
				}
			}
		}
		rep.Count("c16.ops", 1)
		perr := safely(apply)
		gotPanic := ""
		switch perr.(type) {
		case nil:
		case stypes.ErrorOutOfGas:
			gotPanic = "outofgas"
		case stypes.ErrorGasOverflow:
			gotPanic = "overflow"
		default:
			bad(i, o, "panic/"+o.Op, fmt.Sprintf("panicked: %v", perr))
			return
		}
		if gotPanic != expectPanic {
			bad(i, o, "gas-panic-mismatch", fmt.Sprintf("reference says %q at this operation, store raised %q (reference consumed %d, meter %v)", expectPanic, gotPanic, ref.consumed, meterStr(meter)))
			return
		}
		if expectPanic != "" {
			rep.Count("c16.gas_panics."+expectPanic, 1)
			dead = true
		}
		if check != nil && (expectPanic == "" || o.Op == "iter" || o.Op == "riter") {
			check()
		}
		if cum != nil {
			*cum = append(*cum, ref.consumed)
		}
		if hasGas && meter.GasConsumed() != ref.consumed {
			bad(i, o, "gas-consumed", fmt.Sprintf("meter shows %d, documented schedule gives %d", meter.GasConsumed(), ref.consumed))
			return
		}
	}
	if cacheLayer != nil {
		cacheLayer.Write()
	}
	// parent content: inside the prefix == model, outside untouched
	gotParent := smap{}
	for _, kv := range drain(parent.Iterator(nil, nil)) {
		gotParent[kv[0]] = kv[1]
	}
	if !dead || cacheLayer == nil {
		for k, v := range model {
			if gv, ok := gotParent[k]; !ok || gv != v {
				rep.Violate("C16", "parent-content", fmt.Sprintf("stack %v prefix %q: parent key %q = %q (present %v), model %q", p.Stack, p.Prefix, k, gv, ok, v))
				break
			}
		}
		for k, gv := range gotParent {
			if _, ok := model[k]; !ok {
				sig := "parent-content"
				if !strings.HasPrefix(k, pfx) {
					sig = "prefix-isolation"
				}
				rep.Violate("C16", sig, fmt.Sprintf("stack %v prefix %q: parent holds unexpected key %q = %q", p.Stack, p.Prefix, k, gv))
				break
			}
		}
	}
	if hasTrace {
		var gotTrace []traceLine
		sc := bufio.NewScanner(&tbuf)
		sc.Buffer(make([]byte, 1<<20), 1<<20)
		for sc.Scan() {
			var l traceLine
			if json.Unmarshal(sc.Bytes(), &l) == nil {
				gotTrace = append(gotTrace, l)
			}
		}
		rep.Count("c16.trace_lines", int64(len(gotTrace)))
		// when an operation ran out of gas its trace line may or may not have been emitted depending on the
		// stacking order; compare the common prefix and require equality when no gas panic occurred
		n := len(wantTrace)
		if dead {
			if len(gotTrace) < n {
				n = len(gotTrace)
			}
			if n > 0 {
				n--
			}
		} else if len(gotTrace) != len(wantTrace) {
			rep.Violate("C16", "trace-length", fmt.Sprintf("stack %v: %d trace lines, %d operations expected to be traced", p.Stack, len(gotTrace), len(wantTrace)))
			n = 0
		}
		for i := 0; i < n; i++ {
			if gotTrace[i] != wantTrace[i] {
				rep.Violate("C16", "trace-mismatch", fmt.Sprintf("stack %v: trace line %d is %+v, operation issued was %+v", p.Stack, i, gotTrace[i], wantTrace[i]))
				break
			}
		}
	}
	return ref.consumed
}

func meterStr(m stypes.GasMeter) string {
	if m == nil {
		return "none"
	}
	return fmt.Sprintf("consumed %d limit %d", m.GasConsumed(), m.Limit())
}

// ---- tracekv used by several goroutines at once (each on its own store and its own writer) ------------------------

type yieldingWriter struct {
	buf bytes.Buffer
}

// Write lets other goroutines run before it consumes the bytes it was handed (a slow or contended log sink).
func (y *yieldingWriter) Write(p []byte) (int, error) {
	runtime.Gosched()
	return y.buf.Write(p)
}

// RunTraceConcurrent: G goroutines trace their own stores into their own writers at the same time. Each writer must end
// up holding exactly its goroutine's operations, one well-formed record per operation, in order.
func RunTraceConcurrent(seed uint64, rep Reporter) {
	r := sim.NewRand(seed)
	g := 2 + r.Intn(7)
	n := 20 + r.Intn(60)
	ws := make([]*yieldingWriter, g)
	var wg sync.WaitGroup
	for i := 0; i < g; i++ {
		ws[i] = &yieldingWriter{}
		wg.Add(1)
		go func(i int) {
			defer wg.Done()
			st := tracekv.NewStore(dbadapter.Store{DB: dbm.NewMemDB()}, ws[i], stypes.TraceContext(map[string]interface{}{"g": i}))
			for k := 0; k < n; k++ {
				key := []byte(fmt.Sprintf("g%d/k%03d", i, k))
				st.Set(key, []byte(fmt.Sprintf("v%d.%d", i, k)))
				if k%3 == 0 {
					st.Get(key)
				}
			}
		}(i)
	}
	wg.Wait()
	rep.Count("c16.trace_concurrent.rounds", 1)
	for i := 0; i < g; i++ {
		want := 0
		k := 0
		for _, line := range bytes.Split(ws[i].buf.Bytes(), []byte("\n")) {
			if len(line) == 0 {
				continue
			}
			var rec struct {
				Operation string                 `json:"operation"`
				Key       string                 `json:"key"`
				Value     string                 `json:"value"`
				Metadata  map[string]interface{} `json:"metadata"`
			}
			if json.Unmarshal(line, &rec) != nil {
				rep.Violate("C16", "trace-concurrent/torn-record", fmt.Sprintf("goroutine %d of %d: trace line %q is not a record", i, g, line))
				return
			}
			key, _ := base64.StdEncoding.DecodeString(rec.Key)
			if rec.Operation == "write" {
				exp := fmt.Sprintf("g%d/k%03d", i, k)
				val, _ := base64.StdEncoding.DecodeString(rec.Value)
				if string(key) != exp || string(val) != fmt.Sprintf("v%d.%d", i, k) || fmt.Sprint(rec.Metadata["g"]) != fmt.Sprint(i) {
					rep.Violate("C16", "trace-concurrent/foreign-or-misordered-record", fmt.Sprintf("goroutine %d of %d: write record #%d is %s=%s (metadata %v), its own operation was %s", i, g, k, key, val, rec.Metadata, exp))
					return
				}
				k++
			} else if !strings.HasPrefix(string(key), fmt.Sprintf("g%d/", i)) {
				rep.Violate("C16", "trace-concurrent/foreign-or-misordered-record", fmt.Sprintf("goroutine %d of %d: %s record of key %s belongs to another goroutine's store", i, g, rec.Operation, key))
				return
			}
			want++
		}
		if k != n {
			rep.Violate("C16", "trace-concurrent/missing-records", fmt.Sprintf("goroutine %d of %d: %d write records for %d writes", i, g, k, n))
			return
		}
		rep.Count("c16.trace_concurrent.records", int64(want))
	}
}
