package storechk

import (
	"encoding/hex"
	"runtime"
)

func runtimeGosched() { runtime.Gosched() }

// B is a byte string that survives JSON (keys contain 0x00 / 0xFF bytes): it is written as hex.
type B string

func (b B) MarshalText() ([]byte, error) { return []byte(hex.EncodeToString([]byte(b))), nil }
func (b *B) UnmarshalText(t []byte) error {
	d, err := hex.DecodeString(string(t))
	if err != nil {
		return err
	}
	*b = B(d)
	return nil
}
