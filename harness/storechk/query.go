package storechk

import (
	"bytes"
	"fmt"

	abci "github.com/tendermint/tendermint/abci/types"
	"github.com/tendermint/tendermint/crypto/merkle"
	dbm "github.com/tendermint/tm-db"

	"verif/harness/sim"

	"github.com/pokt-network/posmint/store/rootmulti"
	stypes "github.com/pokt-network/posmint/store/types"
)

// KeyPath builds the proof key path /<store>/<key> the way clients do.
func KeyPath(store string, key []byte) string {
	kp := merkle.KeyPath{}
	kp = kp.AppendKey([]byte(store), merkle.KeyEncodingURL)
	kp = kp.AppendKey(key, merkle.KeyEncodingURL)
	return kp.String()
}

// JudgeStoreQuery decides one "/<store>/key" query result against what was committed.
//
//	committed(h) returns (value, present, storeKnown) of that key at height h; hashOf(h) the app hash of h (nil if unknown).
//	class is "retained", "pruned" or "future" for the requested height.
func JudgeStoreQuery(rep Reporter, prop, store string, key []byte, reqHeight int64, prove bool, class string,
	want []byte, present bool, res abci.ResponseQuery, rootAt func(h int64) []byte, otherHeights []int64, ctx string, storeKeys []string) {
	rt := rootmulti.DefaultProofRuntime()
	switch class {
	case "pruned", "future":
		rep.Count("c14.queries."+class, 1)
		if len(res.Value) != 0 {
			rep.Violate(prop, class+"-height-returns-value", fmt.Sprintf("%s: query of %s/%x at %s height %d returned value %x", ctx, store, key, class, reqHeight, res.Value))
		}
		if res.Proof != nil && len(res.Proof.Ops) > 0 && res.Code == 0 {
			rep.Violate(prop, class+"-height-returns-proof", fmt.Sprintf("%s: query of %s/%x at %s height %d returned a proof", ctx, store, key, class, reqHeight))
		}
		return
	}
	rep.Count("c14.queries.retained", 1)
	if res.Code != 0 {
		// refusing a query is not wrong data; count it (a retained height must normally answer)
		rep.Count("c14.retained_refused", 1)
		if !(prove && reqHeight <= 1) {
			rep.Violate(prop, "retained-height-refused", fmt.Sprintf("%s: query of %s/%x at retained height %d refused: code %d %s", ctx, store, key, reqHeight, res.Code, res.Log))
		}
		return
	}
	if present {
		rep.Count("c14.present_keys", 1)
		if !bytes.Equal(res.Value, want) {
			rep.Violate(prop, "wrong-value", fmt.Sprintf("%s: query of %s/%x at height %d returned %x, committed %x", ctx, store, key, reqHeight, res.Value, want))
			return
		}
	} else {
		rep.Count("c14.absent_keys", 1)
		if len(res.Value) != 0 {
			rep.Violate(prop, "value-for-absent-key", fmt.Sprintf("%s: query of %s/%x at height %d returned %x, nothing was committed there", ctx, store, key, reqHeight, res.Value))
			return
		}
	}
	if !prove {
		return
	}
	if res.Proof == nil || len(res.Proof.Ops) == 0 {
		rep.Violate(prop, "proof-missing", fmt.Sprintf("%s: proof requested for %s/%x at height %d but none returned", ctx, store, key, reqHeight))
		return
	}
	root := rootAt(reqHeight)
	kp := KeyPath(store, key)
	verify := func(r []byte) error {
		if present {
			return rt.VerifyValue(res.Proof, r, kp, want)
		}
		return rt.VerifyAbsence(res.Proof, r, kp)
	}
	if err := verify(root); err != nil {
		what := "existence"
		if !present {
			what = "absence"
		}
		if !present {
			// classify the absent key by its committed predecessor: IAVL v0.12.4 stops its range proof after one
			// leaf when that leaf is a proper prefix of the requested key
			pred := ""
			for _, k := range storeKeys {
				if k < string(key) && k > pred {
					pred = k
				}
			}
			ffInStore := false
			for _, k := range storeKeys {
				if allFF([]byte(k)) {
					ffInStore = true
				}
			}
			ext := false // some committed key extends the queried key
			for _, k := range storeKeys {
				if len(k) > len(key) && k[:len(key)] == string(key) {
					ext = true
				}
			}
			switch {
			case pred != "" && len(pred) < len(key) && string(key[:len(pred)]) == pred:
				what += "/predecessor-is-prefix-of-key"
			case ext:
				what += "/key-is-prefix-of-committed-key"
			case ffInStore || allFF(key):
				what += "/all-0xff-key"
			default:
				what += "/other"
			}
		}
		rep.Violate(prop, "proof-does-not-verify/"+what, fmt.Sprintf("%s: %s proof for %s/%x at height %d does not verify against that height's app hash: %v", ctx, what, store, key, reqHeight, err))
		return
	}
	rep.Count("c14.proofs_verified", 1)
	for _, g := range otherHeights {
		r := rootAt(g)
		if g == reqHeight || r == nil || bytes.Equal(r, root) {
			continue
		}
		rep.Count("c14.proofs_cross_checked", 1)
		if err := verify(r); err == nil {
			rep.Violate(prop, "proof-verifies-against-other-height", fmt.Sprintf("%s: proof for %s/%x at height %d also verifies against the app hash of height %d", ctx, store, key, reqHeight, g))
		}
	}
	// a proof must not verify for another value / as the opposite claim
	if present {
		if rt.VerifyValue(res.Proof, root, kp, append(append([]byte{}, want...), 'x')) == nil {
			rep.Violate(prop, "proof-verifies-other-value", fmt.Sprintf("%s: proof for %s/%x verifies for a different value", ctx, store, key))
		}
	}
}

func allFF(k []byte) bool {
	if len(k) == 0 {
		return false
	}
	for _, b := range k {
		if b != 0xff {
			return false
		}
	}
	return true
}

// RunC14 drives a rootmulti history and queries it between commits with uncommitted writes pending.
func RunC14(h *MSHist, r *sim.Rand, rep Reporter) {
	db := dbm.NewMemDB()
	in := openMS(db, h)
	if err := in.rs.LoadLatestVersion(); err != nil {
		return
	}
	model := make(content, h.NStores)
	for i := range model {
		model[i] = map[string]string{}
	}
	versions := map[int64]content{}
	hashes := map[int64][]byte{}
	latest := int64(0)
	pstr := pruneStr(h.Pruning)
	for ci, ops := range h.Commits {
		in.apply(ops, h) // pending, uncommitted writes
		nq := 4 + r.Intn(8)
		for q := 0; q < nq && latest > 0; q++ {
			si := r.Intn(h.NStores + 1) // NStores => unknown store
			store := fmt.Sprintf("store%d", si)
			key := []byte(keyAlphabet[r.Intn(len(keyAlphabet))])
			switch r.Intn(6) {
			case 0:
				key = append(key, 0)
			case 1:
				key = []byte("never-written")
			}
			hs := []int64{0, latest, latest - 1, latest - 2, 1, 2, latest + 1, latest + 5, int64(1 + r.Intn(int(latest)))}
			qh := hs[r.Intn(len(hs))]
			if qh < 0 {
				qh = 0
			}
			if r.Chance(4) {
				qh = -1 - int64(r.Intn(3)) // a height that never existed
			}
			prove := r.Bool()
			var res abci.ResponseQuery
			req := abci.RequestQuery{Path: "/" + store + "/key", Data: key, Height: qh, Prove: prove}
			if p := safely(func() { res = in.rs.Query(req) }); p != nil {
				cls := "other"
				if allFF(key) {
					cls = "key-all-0xff"
				}
				rep.Violate("C14", "query-panic/"+cls, fmt.Sprintf("Query(%s/%x height %d prove %v) panicked: %v (pruning %s)", store, key, qh, prove, p, pstr))
				continue
			}
			if si >= h.NStores {
				rep.Count("c14.queries.unknown_store", 1)
				if res.Code == 0 || len(res.Value) != 0 {
					rep.Violate("C14", "unknown-store-answers", fmt.Sprintf("query of unknown store %s returned code %d value %x", store, res.Code, res.Value))
				}
				continue
			}
			eff := qh
			if eff == 0 {
				// the substore's own default: latest-1 if it still exists, else latest
				eff = latest
				if Retained(latest-1, latest, h.Pruning) {
					eff = latest - 1
				}
			}
			class := "retained"
			switch {
			case eff < 0:
				class = "future" // nothing was ever committed at a negative height: no value, no proof
				rep.Count("c14.queries.negative_height", 1)
			case eff > latest:
				class = "future"
			case !Retained(eff, latest, h.Pruning):
				class = "pruned"
			}
			var want []byte
			present := false
			if class == "retained" {
				if v, ok := versions[eff][si][string(key)]; ok {
					want, present = []byte(v), true
				}
			}
			var others []int64
			for g := eff - 2; g <= eff+2; g++ {
				if g >= 1 && g <= latest {
					others = append(others, g)
				}
			}
			ctx := fmt.Sprintf("multistore %d stores pruning %s latest %d, %d uncommitted ops pending", h.NStores, pstr, latest, len(ops))
			if len(ops) > 0 {
				rep.Count("c14.queries_with_pending_writes", 1)
			}
			if len(model[si]) == 0 && class == "retained" && len(versions[eff][si]) == 0 {
				rep.Count("c14.queries.empty_store", 1)
			}
			var sk []string
			if class == "retained" {
				for k := range versions[eff][si] {
					sk = append(sk, k)
				}
			}
			JudgeStoreQuery(rep, "C14", store, key, eff, prove, class, want, present, res, func(g int64) []byte { return hashes[g] }, others, ctx, sk)
		}
		for _, o := range ops {
			if o.Store >= h.NStores {
				continue
			}
			if o.Del {
				delete(model[o.Store], string(o.Key))
			} else {
				model[o.Store][string(o.Key)] = o.Val
			}
		}
		var cid stypes.CommitID
		if p := safely(func() { cid = in.rs.Commit() }); p != nil {
			return
		}
		latest = int64(ci + 1)
		versions[latest] = cloneContent(model)
		hashes[latest] = cid.Hash
		rep.Count("c14.commits", 1)
		for _, rl := range h.Reload {
			if rl == ci+1 {
				// a restarted process: the following queries (until the next Commit) are answered by a freshly opened store
				n := openMS(db, h)
				if err := n.rs.LoadLatestVersion(); err != nil {
					return
				}
				in = n
				rep.Count("c14.reopened_before_queries", 1)
			}
		}
	}
}
