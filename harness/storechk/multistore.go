// Package storechk: monitors for the store-level properties C12-C16.
package storechk

import (
	"bytes"
	"encoding/json"
	"fmt"
	"io/ioutil"
	"os"
	"os/exec"
	"path/filepath"
	"sort"
	"syscall"

	dbm "github.com/tendermint/tm-db"

	"verif/harness/sim"

	"github.com/pokt-network/posmint/store/rootmulti"
	stypes "github.com/pokt-network/posmint/store/types"
)

// ---- crash-injecting database ----------------------------------------------------------------

type crashSentinel struct{ at int }

// CrashDB counts durable mutations (Set/SetSync/Delete/DeleteSync/Batch.Write/WriteSync) and panics
// with a private sentinel *instead of* performing the CrashAt-th one (CrashAt <= 0: never).
type CrashDB struct {
	dbm.DB
	Ops     int
	CrashAt int
	Trace   []string
	Kill    bool // die by SIGKILL instead of panicking (child processes working on a real on-disk database)
}

func (c *CrashDB) hit(kind string) {
	c.Ops++
	if len(c.Trace) < 64 {
		c.Trace = append(c.Trace, kind)
	}
	if c.CrashAt > 0 && c.Ops == c.CrashAt {
		if c.Kill {
			syscall.Kill(syscall.Getpid(), syscall.SIGKILL)
			select {} // never returns: the signal is delivered while this goroutine is parked
		}
		panic(crashSentinel{c.Ops})
	}
}
func (c *CrashDB) Set(k, v []byte)     { c.hit("set"); c.DB.Set(k, v) }
func (c *CrashDB) SetSync(k, v []byte) { c.hit("setsync"); c.DB.SetSync(k, v) }
func (c *CrashDB) Delete(k []byte)     { c.hit("delete"); c.DB.Delete(k) }
func (c *CrashDB) DeleteSync(k []byte) { c.hit("deletesync"); c.DB.DeleteSync(k) }
func (c *CrashDB) NewBatch() dbm.Batch { return &crashBatch{Batch: c.DB.NewBatch(), p: c} }

type crashBatch struct {
	dbm.Batch
	p *CrashDB
	n int
}

func (b *crashBatch) Set(k, v []byte) { b.n++; b.Batch.Set(k, v) }
func (b *crashBatch) Delete(k []byte) { b.n++; b.Batch.Delete(k) }
func (b *crashBatch) Write() {
	b.p.hit(fmt.Sprintf("batch(%d)", b.n))
	b.Batch.Write()
}
func (b *crashBatch) WriteSync() {
	b.p.hit(fmt.Sprintf("batchsync(%d)", b.n))
	b.Batch.WriteSync()
}

// CopyMemDB clones the full content of a database into a fresh MemDB.
func CopyMemDB(src dbm.DB) *dbm.MemDB {
	dst := dbm.NewMemDB()
	it := src.Iterator(nil, nil)
	for ; it.Valid(); it.Next() {
		dst.Set(append([]byte{}, it.Key()...), append([]byte{}, it.Value()...))
	}
	it.Close()
	return dst
}

// ---- multistore histories -----------------------------------------------------------------------

type Op struct {
	Store int    `json:"s"`
	Del   bool   `json:"d,omitempty"`
	Key   B      `json:"k"`
	Val   string `json:"v,omitempty"` // "" (and not Del): a zero-length value
}

type MSHist struct {
	NStores int       `json:"stores"`
	Pruning *[2]int64 `json:"pruning"` // nil: zero value of the multistore (prune everything)
	Lazy    bool      `json:"lazy"`
	Commits [][]Op    `json:"commits"` // ops before each commit; Store == NStores addresses the transient store
	Reload  []int     `json:"reload"`  // reload after these commit numbers (1-based)
	// ViaCache: the writes of a block go through rs.CacheMultiStore() and one Write() (as baseapp's ante does)
	ViaCache bool `json:"via_cache,omitempty"`
	// LateFrom > 0: the last IAVL store is only mounted by instances opened after that many commits
	// (a store added by an upgrade: its own version numbering lags the multistore's)
	LateFrom int `json:"late_from,omitempty"`
	// Ghost: before every reload the live instance receives writes that are never committed; in-process reloads
	// (LoadLatestVersion on the same object, LoadVersion on a CopyStore copy) must not show them
	Ghost bool `json:"ghost,omitempty"`
	// PruneAfterLoad: SetPruning is called after the versions are loaded instead of before mounting
	PruneAfterLoad bool `json:"prune_after_load,omitempty"`
}

// AddLateStore turns the last store of a history into one that is mounted at a later reload (only under pruning
// options whose retention rule does not depend on absolute version numbers).
func AddLateStore(r *sim.Rand, h *MSHist) {
	if h.NStores < 2 || len(h.Reload) == 0 {
		return
	}
	if h.Pruning != nil && !(h.Pruning[1] <= 1 || h.Pruning[0] >= 100) {
		return
	}
	h.LateFrom = h.Reload[r.Intn(len(h.Reload))]
	if h.LateFrom >= len(h.Commits) {
		h.LateFrom = 0
	}
}

var keyAlphabet = []string{"a", "ab", "abc", "b", "\x00", "\x00\x00", "\xff", "\xff\xff", "k1", "k2", "zz", "m"}

func GenMSHist(r *sim.Rand, quick bool) MSHist {
	h := MSHist{NStores: 1 + r.Intn(5)} // Lazy stays false: iavl v0.12.4 LazyLoadVersion panics on an empty tree; lazy loading is not part of C12's statement
	switch r.Intn(9) {
	case 0:
		h.Pruning = nil
	case 1:
		h.Pruning = &[2]int64{0, 1}
	case 2:
		h.Pruning = &[2]int64{100, 10000}
	case 3:
		h.Pruning = &[2]int64{0, 3}
	case 4:
		h.Pruning = &[2]int64{1, 2}
	case 5:
		h.Pruning = &[2]int64{2, 3}
	case 6:
		h.Pruning = &[2]int64{5, 0}
	case 7:
		h.Pruning = &[2]int64{3, 7}
	case 8:
		h.Pruning = &[2]int64{0, 0}
	}
	h.ViaCache = r.Chance(30)
	n := 8 + r.Intn(30)
	if !quick {
		n = 30 + r.Intn(90)
	}
	for c := 0; c < n; c++ {
		var ops []Op
		k := r.Intn(8)
		if h.ViaCache {
			k = 4 + r.Intn(24) // enough distinct keys per store for the order of application to matter
		}
		if r.Chance(10) {
			k = 0 // empty commit
		}
		for i := 0; i < k; i++ {
			o := Op{Store: r.Intn(h.NStores + 1), Key: B(keyAlphabet[r.Intn(len(keyAlphabet))])}
			if r.Chance(30) {
				o.Del = true
			} else if !r.Chance(6) { // else: a zero-length value (a presence marker)
				o.Val = fmt.Sprintf("v%d.%d", c, r.Intn(1000))
			}
			ops = append(ops, o)
		}
		if r.Chance(4) { // delete everything in one store
			s := r.Intn(h.NStores)
			for _, key := range keyAlphabet {
				ops = append(ops, Op{Store: s, Del: true, Key: B(key)})
			}
		}
		h.Commits = append(h.Commits, ops)
		if r.Chance(15) {
			h.Reload = append(h.Reload, c+1)
		}
	}
	return h
}

type msInst struct {
	rs   *rootmulti.Store
	keys []stypes.StoreKey
	tkey *stypes.TransientStoreKey
}

func openMS(db dbm.DB, h *MSHist) *msInst { return openMSAt(db, h, len(h.Commits)) }

// openMSAt: an instance opened after `done` commits (decides whether the late store is mounted yet).
func openMSAt(db dbm.DB, h *MSHist, done int) *msInst {
	rs := rootmulti.NewStore(db)
	if h.Pruning != nil && !h.PruneAfterLoad {
		rs.SetPruning(stypes.NewPruningOptions(h.Pruning[0], h.Pruning[1]))
	}
	rs.SetLazyLoading(h.Lazy)
	in := &msInst{rs: rs}
	for i := 0; i < h.NStores; i++ {
		if h.LateFrom > 0 && i == h.NStores-1 && done < h.LateFrom {
			continue
		}
		k := stypes.NewKVStoreKey(fmt.Sprintf("store%d", i))
		in.keys = append(in.keys, k)
		rs.MountStoreWithDB(k, stypes.StoreTypeIAVL, nil)
	}
	in.tkey = stypes.NewTransientStoreKey("transient")
	rs.MountStoreWithDB(in.tkey, stypes.StoreTypeTransient, nil)
	return in
}

// loadLatest / loadVersion: load, then (PruneAfterLoad histories) set the pruning options on the loaded store.
func (in *msInst) loadLatest(h *MSHist) error {
	err := in.rs.LoadLatestVersion()
	in.pruneAfterLoad(h, err)
	return err
}
func (in *msInst) loadVersion(h *MSHist, u int64) error {
	err := in.rs.LoadVersion(u)
	in.pruneAfterLoad(h, err)
	return err
}
func (in *msInst) pruneAfterLoad(h *MSHist, err error) {
	if err == nil && h.PruneAfterLoad && h.Pruning != nil {
		in.rs.SetPruning(stypes.NewPruningOptions(h.Pruning[0], h.Pruning[1]))
	}
}

func (in *msInst) apply(ops []Op, h *MSHist) {
	var ms stypes.MultiStore = in.rs
	var cms stypes.CacheMultiStore
	if h.ViaCache {
		cms = in.rs.CacheMultiStore()
		ms = cms
	}
	for _, o := range ops {
		var st stypes.KVStore
		if o.Store >= h.NStores {
			st = ms.GetKVStore(in.tkey)
		} else if o.Store >= len(in.keys) {
			continue // the late store is not mounted yet
		} else {
			st = ms.GetKVStore(in.keys[o.Store])
		}
		if o.Del {
			st.Delete([]byte(o.Key))
		} else {
			st.Set([]byte(o.Key), []byte(o.Val))
		}
	}
	if cms != nil {
		cms.Write()
	}
}

// applyModel mirrors apply on the sorted-map model.
func (in *msInst) applyModel(model content, ops []Op, h *MSHist) {
	for _, o := range ops {
		if o.Store >= h.NStores || o.Store >= len(in.keys) {
			continue
		}
		if o.Del {
			delete(model[o.Store], string(o.Key))
		} else {
			model[o.Store][string(o.Key)] = o.Val
		}
	}
}

type content []map[string]string // per IAVL store

// dump reads every store three ways — ascending iteration, descending iteration and point reads of every key
// of the alphabet — and reports any disagreement between them as content under a marker key.
func (in *msInst) dump(h *MSHist) content {
	out := make(content, h.NStores)
	for i := range out {
		out[i] = map[string]string{}
	}
	for i, k := range in.keys {
		m := map[string]string{}
		st := in.rs.GetKVStore(k)
		it := st.Iterator(nil, nil)
		for ; it.Valid(); it.Next() {
			m[string(it.Key())] = string(it.Value())
		}
		it.Close()
		n := 0
		rit := st.ReverseIterator(nil, nil)
		for ; rit.Valid(); rit.Next() {
			n++
			if v, ok := m[string(rit.Key())]; !ok || v != string(rit.Value()) {
				m["\x00!reverse-iterator-disagrees:"+string(rit.Key())] = string(rit.Value())
			}
		}
		rit.Close()
		if n != len(m) {
			m["\x00!reverse-iterator-count"] = fmt.Sprint(n)
		}
		for _, key := range keyAlphabet {
			v := st.Get([]byte(key))
			mv, ok := m[key]
			if (v != nil) != ok || (ok && string(v) != mv) || st.Has([]byte(key)) != ok {
				m["\x00!get-disagrees:"+key] = string(v)
			}
		}
		out[i] = m
	}
	return out
}

func cloneContent(c content) content {
	out := make(content, len(c))
	for i, m := range c {
		n := map[string]string{}
		for k, v := range m {
			n[k] = v
		}
		out[i] = n
	}
	return out
}

func diffContent(want, got content) string {
	for i := range want {
		var keys []string
		for k := range want[i] {
			keys = append(keys, k)
		}
		for k := range got[i] {
			if _, ok := want[i][k]; !ok {
				keys = append(keys, k)
			}
		}
		sort.Strings(keys)
		for _, k := range keys {
			w, wok := want[i][k]
			g, gok := got[i][k]
			if wok != gok || w != g {
				return fmt.Sprintf("store%d key %q: committed %q (present %v), read back %q (present %v)", i, k, w, wok, g, gok)
			}
		}
	}
	return ""
}

// Retained says whether version u is kept after committing versions 1..latest under (keepRecent, keepEvery):
// committing v releases v-1-keepRecent unless it is a positive multiple of keepEvery.
func Retained(u, latest int64, p *[2]int64) bool {
	kr, ke := int64(0), int64(0)
	if p != nil {
		kr, ke = p[0], p[1]
	}
	if u < 1 || u > latest {
		return false
	}
	if u+1+kr > latest {
		return true
	}
	return ke != 0 && u%ke == 0
}

type Reporter interface {
	Violate(prop, sig, msg string)
	Count(k string, n int64)
}

func safely(fn func()) (perr interface{}) {
	defer func() {
		if r := recover(); r != nil {
			perr = r
		}
	}()
	fn()
	return nil
}

// RunC12 executes one history and judges durability / version readability.
func RunC12(h *MSHist, rep Reporter) { RunC12On(h, rep, false) }

// RunC12On with disk: the database is GoLevelDB in a scratch directory, and every reload closes the handle and opens the
// directory again (what a restarted process sees), instead of re-reading a shared in-memory database.
func RunC12On(h *MSHist, rep Reporter, disk bool) {
	var db dbm.DB = dbm.NewMemDB()
	dir := ""
	if disk {
		var err error
		dir, err = ioutil.TempDir("", "vc12disk")
		if err != nil {
			return
		}
		defer os.RemoveAll(dir)
		ldb, err := dbm.NewGoLevelDB("c12", dir)
		if err != nil {
			return
		}
		db = ldb
		defer func() { db.Close() }()
		rep.Count("c12.disk_histories", 1)
	}
	in := openMSAt(db, h, 0)
	if err := in.loadLatest(h); err != nil {
		rep.Violate("C12", "initial-load", fmt.Sprintf("LoadLatestVersion on an empty database failed: %v", err))
		return
	}
	model := make(content, h.NStores)
	for i := range model {
		model[i] = map[string]string{}
	}
	versions := map[int64]content{}
	cids := map[int64]stypes.CommitID{}
	reload := map[int]bool{}
	for _, r := range h.Reload {
		reload[r] = true
	}
	pstr := pruneStr(h.Pruning)
	for ci, ops := range h.Commits {
		v := int64(ci + 1)
		in.apply(ops, h)
		in.applyModel(model, ops, h)
		if ci == 0 && h.Ghost && !h.ViaCache {
			// a historical read before anything is committed (a query right after InitChain): the copy is loaded at
			// version 0; the live store keeps its pending writes
			if p := safely(func() {
				c := *in.rs.CopyStore()
				_ = c.(*rootmulti.Store).LoadVersion(0)
			}); p == nil {
				rep.Count("c12.copy_loads_at_version_0", 1)
				if d := diffContent(model, in.dump(h)); d != "" {
					rep.Violate("C12", "copy-load-disturbs-live-store/version-0", fmt.Sprintf("loading version 0 on a CopyStore copy before the first Commit changed what the live store shows: %s", d))
				}
			}
		}
		var cid stypes.CommitID
		if p := safely(func() { cid = in.rs.Commit() }); p != nil {
			rep.Violate("C12", "commit-panic", fmt.Sprintf("Commit of version %d panicked: %v (pruning %s)", v, p, pstr))
			return
		}
		rep.Count("c12.commits", 1)
		if cid.Version != v {
			rep.Violate("C12", "version-step", fmt.Sprintf("Commit returned version %d after %d", cid.Version, v-1))
		}
		if lc := in.rs.LastCommitID(); lc.Version != cid.Version || !bytes.Equal(lc.Hash, cid.Hash) {
			rep.Violate("C12", "lastcommitid", fmt.Sprintf("LastCommitID %v differs from the CommitID %v just returned", lc, cid))
		}
		tit := in.rs.GetKVStore(in.tkey).Iterator(nil, nil)
		if tit.Valid() {
			rep.Violate("C12", "transient-not-empty", fmt.Sprintf("transient store holds %q after Commit %d", tit.Key(), v))
		}
		tit.Close()
		versions[v] = cloneContent(model)
		cids[v] = cid
		// the live instance keeps showing what was committed
		if d := diffContent(model, in.dump(h)); d != "" {
			rep.Violate("C12", "live-content", fmt.Sprintf("after Commit %d the live store differs from what was written: %s", v, d))
		}
		if reload[ci+1] || ci == len(h.Commits)-1 {
			rep.Count("c12.reloads", 1)
			if h.LateFrom > 0 && ci+1 >= h.LateFrom && len(in.keys) < h.NStores {
				rep.Count("c12.late_store_mounted", 1)
			}
			if h.Ghost {
				// writes that are never committed
				for si, k := range in.keys {
					st := in.rs.GetKVStore(k)
					st.Set([]byte("ghost"), []byte("uncommitted"))
					for key := range model[si] {
						st.Delete([]byte(key))
						break
					}
				}
				rep.Count("c12.ghost_write_rounds", 1)
				liveBefore := in.dump(h) // committed content plus the uncommitted writes
				// (a) a copy of the store object loaded at a version (the route of historical contexts and custom queries)
				for _, u := range []int64{v, v - 1} {
					if u < 1 || !Retained(u, v, h.Pruning) || (h.LateFrom > 0 && u <= int64(h.LateFrom)) {
						continue
					}
					var cerr error
					var cp *rootmulti.Store
					if p := safely(func() {
						c := *in.rs.CopyStore()
						cp = c.(*rootmulti.Store)
						cerr = cp.LoadVersion(u)
					}); p != nil {
						cerr = fmt.Errorf("panic: %v", p)
					}
					if cerr != nil {
						rep.Violate("C12", "copy-load-error/"+pstr, fmt.Sprintf("LoadVersion(%d) on a CopyStore copy at latest %d fails: %v", u, v, cerr))
						continue
					}
					ci2 := &msInst{rs: cp, keys: in.keys, tkey: in.tkey}
					if d := diffContent(versions[u], ci2.dump(h)); d != "" {
						rep.Violate("C12", "copy-load-content", fmt.Sprintf("a CopyStore copy loaded at version %d (latest %d, uncommitted writes pending in the live store) does not show what was committed: %s", u, v, d))
					}
					rep.Count("c12.copy_loads", 1)
				}
				if d := diffContent(liveBefore, in.dump(h)); d != "" {
					rep.Violate("C12", "copy-load-disturbs-live-store", fmt.Sprintf("loading versions on CopyStore copies changed what the live store (latest %d, with uncommitted writes) shows: %s", v, d))
				}
				// (a') the live object is asked for a version that is pruned (or does not exist yet): it refuses and
				// stays where it is
				for _, u := range []int64{v - 1, v - 2, 1, v + 3} {
					if u < 1 || Retained(u, v, h.Pruning) {
						continue
					}
					var ferr error
					if p := safely(func() { ferr = in.rs.LoadVersion(u) }); p != nil {
						ferr = fmt.Errorf("panic: %v", p)
					}
					if ferr == nil {
						break // judged elsewhere (pruned-version-loads); the object has moved, stop probing
					}
					rep.Count("c12.refused_loads_on_live_store", 1)
					if lc := in.rs.LastCommitID(); lc.Version != v || !bytes.Equal(lc.Hash, cid.Hash) {
						rep.Violate("C12", "refused-load-moves-live-store", fmt.Sprintf("LoadVersion(%d) on the live store at version %d failed (%v) but LastCommitID now reports %v", u, v, ferr, lc))
						break
					}
				}
				// (a'') versioned read-only views of the live object (CacheMultiStoreWithVersion): the committed content of
				// a retained version, an error for a pruned or future one
				for _, u := range []int64{v, v - 1, v - 2, 1, v + 2} {
					if u < 1 || h.LateFrom > 0 {
						// (with a store mounted later, CacheMultiStoreWithVersion asks every substore for the multistore's
						// version number, which the late store numbers differently: it fails for every version. Stores
						// mounted later are outside the statement; LoadVersion, which the application uses, handles them.)
						continue
					}
					var cms stypes.CacheMultiStore
					var verr error
					if p := safely(func() { cms, verr = in.rs.CacheMultiStoreWithVersion(u) }); p != nil {
						verr = fmt.Errorf("panic: %v", p)
					}
					kept := Retained(u, v, h.Pruning)
					rep.Count("c12.versioned_views", 1)
					switch {
					case kept && verr != nil:
						rep.Violate("C12", "versioned-view-error/"+pstr, fmt.Sprintf("CacheMultiStoreWithVersion(%d) at latest %d (retained under pruning %s) fails: %v", u, v, pstr, verr))
					case kept:
						got := make(content, h.NStores)
						for i := range got {
							got[i] = map[string]string{}
						}
						for i, k := range in.keys {
							for _, kv := range drain(cms.GetKVStore(k).Iterator(nil, nil)) {
								got[i][kv[0]] = kv[1]
							}
						}
						if d := diffContent(versions[u], got); d != "" {
							rep.Violate("C12", "versioned-view-content", fmt.Sprintf("CacheMultiStoreWithVersion(%d) at latest %d: %s", u, v, d))
						}
					case verr == nil:
						rep.Violate("C12", "versioned-view-of-unavailable-version/"+pstr, fmt.Sprintf("CacheMultiStoreWithVersion(%d) at latest %d succeeded although that version is pruned / does not exist (pruning %s)", u, v, pstr))
					}
				}
				// (b) the same object loads its latest version again: the uncommitted writes are gone
				var lerr error
				if p := safely(func() { lerr = in.loadLatest(h) }); p != nil {
					lerr = fmt.Errorf("panic: %v", p)
				}
				if lerr != nil {
					rep.Violate("C12", "inprocess-reload-error/"+pstr, fmt.Sprintf("LoadLatestVersion on the live object after Commit %d fails: %v", v, lerr))
					return
				}
				if lc := in.rs.LastCommitID(); lc.Version != v || !bytes.Equal(lc.Hash, cid.Hash) {
					rep.Violate("C12", "inprocess-reload-commitid", fmt.Sprintf("the live object reloaded at %v, committed %v", lc, cid))
				}
				if d := diffContent(model, in.dump(h)); d != "" {
					rep.Violate("C12", "inprocess-reload-content", fmt.Sprintf("after LoadLatestVersion on the live object (version %d) uncommitted writes are visible / committed data is missing: %s", v, d))
				}
				rep.Count("c12.inprocess_reloads", 1)
			}
			if disk {
				db.Close()
				ldb, err := dbm.NewGoLevelDB("c12", dir)
				if err != nil {
					rep.Violate("C12", "disk-database-unopenable", fmt.Sprintf("after Commit %d the database directory cannot be opened again: %v", v, err))
					return
				}
				db = ldb
				rep.Count("c12.disk_reopens", 1)
			}
			n := openMSAt(db, h, ci+1)
			var err error
			if p := safely(func() { err = n.loadLatest(h) }); p != nil {
				err = fmt.Errorf("panic: %v", p)
			}
			if err != nil {
				rep.Violate("C12", "reopen-latest-error/"+pstr, fmt.Sprintf("reopening after Commit %d failed: %v (pruning %s)", v, err, pstr))
				return
			}
			if lc := n.rs.LastCommitID(); lc.Version != v || !bytes.Equal(lc.Hash, cid.Hash) {
				rep.Violate("C12", "reopen-commitid", fmt.Sprintf("reopened store reports %v, committed %v", lc, cid))
			}
			if d := diffContent(model, n.dump(h)); d != "" {
				rep.Violate("C12", "reopen-content", fmt.Sprintf("reopened store at version %d: %s", v, d))
			}
			// every target version
			// every target version, newest first (the last one loaded is the oldest)
			for u := v + 1; u >= 1; u-- {
				t := openMSAt(db, h, ci+1)
				var err error
				if p := safely(func() { err = t.loadVersion(h, u) }); p != nil {
					err = fmt.Errorf("panic: %v", p)
				}
				kept := Retained(u, v, h.Pruning)
				switch {
				case kept && err != nil:
					rep.Violate("C12", "retained-version-unreadable/"+pstr, fmt.Sprintf("version %d should be retained at latest %d under pruning %s but LoadVersion fails: %v", u, v, pstr, err))
				case kept:
					rep.Count("c12.retained_versions_read", 1)
					if lc := t.rs.LastCommitID(); lc.Version != u || !bytes.Equal(lc.Hash, cids[u].Hash) {
						rep.Violate("C12", "old-version-commitid", fmt.Sprintf("LoadVersion(%d) reports %v, committed %v", u, lc, cids[u]))
					}
					got := t.dump(h)
					if h.LateFrom > 0 && u <= int64(h.LateFrom) {
						// The late store did not exist at this version. rootmulti loads it with a zero CommitID, which
						// IAVL reads as "latest", so it shows its current content; the statement does not speak about
						// stores at versions before they were mounted: observed and counted, not judged.
						if len(got[h.NStores-1]) > 0 {
							rep.Count("c12.observed.late_store_shows_latest_content_at_versions_before_its_mount", 1)
						}
						got[h.NStores-1] = map[string]string{}
					}
					if d := diffContent(versions[u], got); d != "" {
						rep.Violate("C12", "old-version-content/"+pstr, fmt.Sprintf("LoadVersion(%d) at latest %d (pruning %s): %s", u, v, pstr, d))
					}
				case err == nil:
					// pruned or future version loaded: it must at least not show wrong data; the statement wants an error
					rep.Count("c12.pruned_versions_loaded", 1)
					if u > v {
						rep.Violate("C12", "future-version-loads", fmt.Sprintf("LoadVersion(%d) succeeded although the latest version is %d", u, v))
					} else {
						rep.Violate("C12", "pruned-version-loads/"+pstr, fmt.Sprintf("version %d is pruned at latest %d under pruning %s but LoadVersion succeeds", u, v, pstr))
					}
				default:
					rep.Count("c12.pruned_versions_refused", 1)
				}
			}
			// reading old versions must not have moved anything: a fresh instance is again at the latest version
			n2 := openMSAt(db, h, ci+1)
			if p := safely(func() { err = n2.loadLatest(h) }); p != nil {
				err = fmt.Errorf("panic: %v", p)
			}
			if err != nil {
				rep.Violate("C12", "reopen-after-historical-loads-error/"+pstr, fmt.Sprintf("reopening after loading old versions (latest %d) failed: %v", v, err))
				return
			}
			if lc := n2.rs.LastCommitID(); lc.Version != v || !bytes.Equal(lc.Hash, cid.Hash) {
				rep.Violate("C12", "reopen-after-historical-loads-commitid", fmt.Sprintf("after old versions were loaded for reading, a reopened store reports %v; the latest commit is %v", lc, cid))
				return
			}
			in = n2 // continue on the reopened instance
		}
	}
}

func pruneStr(p *[2]int64) string {
	if p == nil {
		return "default(0,0)"
	}
	return fmt.Sprintf("(%d,%d)", p[0], p[1])
}

// ---- C13: every durable write of every commit as a crash point ----------------------------------

// RunC13 returns the number of crash points explored.
func RunC13(h *MSHist, rep Reporter) int {
	pstr := pruneStr(h.Pruning)
	// reference run
	ref := dbm.NewMemDB()
	cdb := &CrashDB{DB: ref}
	in := openMS(cdb, h)
	if err := in.rs.LoadLatestVersion(); err != nil {
		return 0
	}
	model := make(content, h.NStores)
	for i := range model {
		model[i] = map[string]string{}
	}
	snaps := []*dbm.MemDB{CopyMemDB(ref)} // snaps[v] = database after commit v
	versions := []content{cloneContent(model)}
	cids := []stypes.CommitID{{}}
	opsIn := []int{0}
	for ci, ops := range h.Commits {
		in.apply(ops, h)
		in.applyModel(model, ops, h)
		before := cdb.Ops
		var cid stypes.CommitID
		if p := safely(func() { cid = in.rs.Commit() }); p != nil {
			rep.Violate("C13", "reference-commit-panic", fmt.Sprintf("uninterrupted Commit %d panicked: %v", ci+1, p))
			return 0
		}
		opsIn = append(opsIn, cdb.Ops-before)
		snaps = append(snaps, CopyMemDB(ref))
		versions = append(versions, cloneContent(model))
		cids = append(cids, cid)
	}
	points := 0
	for v := 1; v <= len(h.Commits); v++ {
		for i := 1; i <= opsIn[v]; i++ {
			points++
			rep.Count("c13.crash_points", 1)
			db := CopyMemDB(snaps[v-1])
			c := &CrashDB{DB: db, CrashAt: 0}
			x := openMS(c, h)
			if err := x.rs.LoadLatestVersion(); err != nil {
				rep.Violate("C13", "harness-reopen", fmt.Sprintf("reopening the clean snapshot of version %d failed: %v", v-1, err))
				return points
			}
			if (v+i)%2 == 0 && v >= 3 && Retained(int64(v-2), int64(v-1), h.Pruning) {
				// a historical read (a copy of the store loaded at an older version, as a query for an old height does)
				// shortly before the commit that is interrupted
				if p := safely(func() {
					cp := *x.rs.CopyStore()
					_ = cp.(*rootmulti.Store).LoadVersion(int64(v - 2))
				}); p == nil {
					rep.Count("c13.historical_read_before_crash", 1)
				}
			}
			x.apply(h.Commits[v-1], h)
			c.Ops, c.CrashAt = 0, i
			p := safely(func() { x.rs.Commit() })
			if _, ok := p.(crashSentinel); !ok {
				rep.Violate("C13", "harness-no-crash", fmt.Sprintf("commit %d did not reach write %d (%v)", v, i, p))
				continue
			}
			what := "save"
			if len(c.Trace) > 0 {
				what = c.Trace[len(c.Trace)-1]
			}
			class := fmt.Sprintf("height=%d", v)
			if v > 1 {
				class = "height>1"
			}
			where := fmt.Sprintf("crash before durable write %d/%d (%s) of Commit %d, %d stores, pruning %s", i, opsIn[v], what, v, h.NStores, pstr)
			judgeCrash(db, h, v, where, class, versions, cids, rep)
		}
	}
	return points
}

// judgeCrash: the process died inside Commit number v; db holds the surviving bytes. A new instance must open at
// version v-1 or v (whole, with the committed hash), and re-executing the block must reproduce the uninterrupted hash.
func judgeCrash(db dbm.DB, h *MSHist, v int, where, class string, versions []content, cids []stypes.CommitID, rep Reporter) {
	// the process is dead; a new one opens the surviving bytes
	y := openMS(db, h)
	var err error
	if pp := safely(func() { err = y.rs.LoadLatestVersion() }); pp != nil {
		err = fmt.Errorf("panic: %v", pp)
	}
	if err != nil {
		kr := int64(0)
		if h.Pruning != nil {
			kr = h.Pruning[0]
		}
		rep.Violate("C13", fmt.Sprintf("reopen-error/keepRecent=%d/%s", kr, class), fmt.Sprintf("%s: reopening fails: %v", where, err))
		rep.Count("c13.outcome.reopen_error", 1)
		return
	}
	lc := y.rs.LastCommitID()
	switch {
	case lc.Version == int64(v-1) && bytes.Equal(lc.Hash, cids[v-1].Hash):
		rep.Count("c13.outcome.previous_version", 1)
		if d := diffContent(versions[v-1], y.dump(h)); d != "" {
			rep.Violate("C13", "mixture/"+class, fmt.Sprintf("%s: reopened at version %d but content is not that version: %s", where, v-1, d))
			return
		}
	case lc.Version == int64(v) && bytes.Equal(lc.Hash, cids[v].Hash):
		rep.Count("c13.outcome.new_version", 1)
		if d := diffContent(versions[v], y.dump(h)); d != "" {
			rep.Violate("C13", "mixture/"+class, fmt.Sprintf("%s: reopened at version %d but content is not that version: %s", where, v, d))
		}
		return
	default:
		rep.Violate("C13", "reopen-wrong-commitid/"+class, fmt.Sprintf("%s: reopened store reports %v; committed: previous %v new %v", where, lc, cids[v-1], cids[v]))
		return
	}
	// re-execute the interrupted block
	y.apply(h.Commits[v-1], h)
	var cid stypes.CommitID
	if pp := safely(func() { cid = y.rs.Commit() }); pp != nil {
		rep.Violate("C13", "replay-commit-panic/"+class, fmt.Sprintf("%s: re-executing the block panics in Commit: %v", where, pp))
		return
	}
	if cid.Version != int64(v) || !bytes.Equal(cid.Hash, cids[v].Hash) {
		rep.Violate("C13", "replay-hash-differs/"+class, fmt.Sprintf("%s: re-executed block commits %v, the uninterrupted run committed %v", where, cid, cids[v]))
		return
	}
	z := openMS(db, h)
	if err := z.rs.LoadLatestVersion(); err != nil {
		rep.Violate("C13", "reopen-after-replay/"+class, fmt.Sprintf("%s: reopening after the replayed commit fails: %v", where, err))
		return
	}
	if d := diffContent(versions[v], z.dump(h)); d != "" {
		rep.Violate("C13", "content-after-replay/"+class, fmt.Sprintf("%s: after replay: %s", where, d))
	}
}

// ---- C13 on a real on-disk database, with real process death -------------------------------------

// C13Child is the body of the child process: open GoLevelDB in dir, run commits 1..v-1, apply block v and die by
// SIGKILL right before the i-th durable write of its Commit. Exits 3 if the write is never reached.
func C13Child(histFile, dir string, v, i int) {
	raw, err := ioutil.ReadFile(histFile)
	if err != nil {
		os.Exit(4)
	}
	var h MSHist
	if json.Unmarshal(raw, &h) != nil {
		os.Exit(4)
	}
	ldb, err := dbm.NewGoLevelDB("c13", dir)
	if err != nil {
		os.Exit(5)
	}
	c := &CrashDB{DB: ldb, Kill: true}
	x := openMS(c, &h)
	if err := x.rs.LoadLatestVersion(); err != nil {
		os.Exit(5)
	}
	for k := 1; k < v; k++ {
		x.apply(h.Commits[k-1], &h)
		x.rs.Commit()
	}
	x.apply(h.Commits[v-1], &h)
	c.Ops, c.CrashAt = 0, i
	x.rs.Commit()
	os.Exit(3)
}

// RunC13Disk: the same judgement as RunC13, but the interrupted Commit runs in a child process on GoLevelDB and the
// process is killed (SIGKILL) at the chosen durable write; the parent then opens the directory. Returns crash points explored.
func RunC13Disk(h *MSHist, r *sim.Rand, exe string, perHist int, rep Reporter) int {
	pstr := pruneStr(h.Pruning)
	ref := dbm.NewMemDB()
	cdb := &CrashDB{DB: ref}
	in := openMS(cdb, h)
	if err := in.rs.LoadLatestVersion(); err != nil {
		return 0
	}
	model := make(content, h.NStores)
	for i := range model {
		model[i] = map[string]string{}
	}
	versions := []content{cloneContent(model)}
	cids := []stypes.CommitID{{}}
	opsIn := []int{0}
	for _, ops := range h.Commits {
		in.apply(ops, h)
		in.applyModel(model, ops, h)
		before := cdb.Ops
		var cid stypes.CommitID
		if p := safely(func() { cid = in.rs.Commit() }); p != nil {
			return 0
		}
		opsIn = append(opsIn, cdb.Ops-before)
		versions = append(versions, cloneContent(model))
		cids = append(cids, cid)
	}
	base, err := ioutil.TempDir("", "vc13disk")
	if err != nil {
		return 0
	}
	defer os.RemoveAll(base)
	hf := filepath.Join(base, "hist.json")
	bz, _ := json.Marshal(h)
	if ioutil.WriteFile(hf, bz, 0600) != nil {
		return 0
	}
	points := 0
	for n := 0; n < perHist; n++ {
		v := 1 + r.Intn(len(h.Commits))
		if n == 0 {
			v = 1
		}
		if opsIn[v] == 0 {
			continue
		}
		i := 1 + r.Intn(opsIn[v])
		if n%3 == 1 {
			i = opsIn[v] // the last write: the commit-info flush
		}
		dir := filepath.Join(base, fmt.Sprintf("db%d", n))
		os.MkdirAll(dir, 0700)
		cmd := exec.Command(exe, "--c13child", hf, dir, fmt.Sprint(v), fmt.Sprint(i))
		err := cmd.Run()
		killed := false
		if ee, ok := err.(*exec.ExitError); ok {
			if ws, ok := ee.Sys().(syscall.WaitStatus); ok && ws.Signaled() && ws.Signal() == syscall.SIGKILL {
				killed = true
			}
		}
		if !killed {
			rep.Violate("C13", "harness-child-not-killed", fmt.Sprintf("child for commit %d write %d ended with %v instead of SIGKILL", v, i, err))
			continue
		}
		points++
		rep.Count("c13.disk.crash_points", 1)
		class := fmt.Sprintf("height=%d", v)
		if v > 1 {
			class = "height>1"
		}
		where := fmt.Sprintf("process killed (SIGKILL) before durable write %d/%d of Commit %d on GoLevelDB, %d stores, pruning %s", i, opsIn[v], v, h.NStores, pstr)
		ldb, err := dbm.NewGoLevelDB("c13", dir)
		if err != nil {
			rep.Violate("C13", "disk-database-unopenable/"+class, fmt.Sprintf("%s: the database directory cannot be opened again: %v", where, err))
			continue
		}
		judgeCrash(ldb, h, v, where, class, versions, cids, rep)
		ldb.Close()
		os.RemoveAll(dir)
	}
	return points
}
