package storechk

import (
	"bytes"
	"encoding/base64"
	"encoding/json"
	"fmt"
	"sort"
	"sync"
	"sync/atomic"
	"time"

	"github.com/anishathalye/porcupine"
	tiavl "github.com/tendermint/iavl"
	dbm "github.com/tendermint/tm-db"

	"verif/harness/sim"

	"github.com/pokt-network/posmint/store/cachekv"
	"github.com/pokt-network/posmint/store/dbadapter"
	"github.com/pokt-network/posmint/store/iavl"
	"github.com/pokt-network/posmint/store/prefix"
	stypes "github.com/pokt-network/posmint/store/types"
)

// ---- sequential programs against a sorted-map model ---------------------------------------------

type COp struct {
	Op    string `json:"op"` // get has set del iter riter write wrap discard iterw pmod (parent modified directly right after a write)
	Key   B      `json:"k,omitempty"`
	Val   string `json:"v,omitempty"`
	Start *B     `json:"s,omitempty"`
	End   *B     `json:"e,omitempty"`
	Steps int    `json:"n,omitempty"` // iterw: steps before the interleaved write
	WKey  B      `json:"wk,omitempty"`
	WVal  string `json:"wv,omitempty"`
	WDel  bool   `json:"wd,omitempty"`
	// iterw: after the interleaved write a second iterator is created and drained while the first is still open
	Second bool `json:"second,omitempty"`
}

type CProg struct {
	Parent string       `json:"parent"` // mem iavl prefix cache
	Init   map[B]string `json:"init"`
	Ops    []COp        `json:"ops"`
}

var cAlpha = []string{"a", "ab", "abc", "abd", "b", "\x00", "\x00\x01", "\xff", "\xff\xff", "k", "ka", "m"}

func strp(s string) *B { b := B(s); return &b }

func genBound(r *sim.Rand) *B {
	switch r.Intn(6) {
	case 0:
		return nil
	case 1:
		return strp(cAlpha[r.Intn(len(cAlpha))] + "\x00") // between keys
	case 2:
		return strp("aa") // between keys
	default:
		return strp(cAlpha[r.Intn(len(cAlpha))])
	}
}

func GenCProg(r *sim.Rand) CProg {
	p := CProg{Parent: []string{"mem", "iavl", "prefix", "cache"}[r.Intn(4)], Init: map[B]string{}}
	for i := 0; i < r.Intn(8); i++ {
		p.Init[B(cAlpha[r.Intn(len(cAlpha))])] = fmt.Sprintf("i%d", i)
	}
	n := 5 + r.Intn(56)
	depth := 0
	for i := 0; i < n; i++ {
		var o COp
		x := r.Intn(100)
		switch {
		case x < 18:
			o = COp{Op: "get", Key: B(cAlpha[r.Intn(len(cAlpha))])}
		case x < 26:
			o = COp{Op: "has", Key: B(cAlpha[r.Intn(len(cAlpha))])}
		case x < 48:
			o = COp{Op: "set", Key: B(cAlpha[r.Intn(len(cAlpha))]), Val: fmt.Sprintf("v%d", i)}
			if r.Chance(8) {
				o.Val = "" // a zero-length value (legal; only nil is refused)
			}
		case x < 60:
			o = COp{Op: "del", Key: B(cAlpha[r.Intn(len(cAlpha))])}
		case x < 70:
			o = COp{Op: "iter", Start: genBound(r), End: genBound(r)}
		case x < 80:
			o = COp{Op: "riter", Start: genBound(r), End: genBound(r)}
		case x < 86:
			o = COp{Op: "iterw", Start: genBound(r), End: genBound(r), Steps: r.Intn(4), WKey: B(cAlpha[r.Intn(len(cAlpha))]), WVal: fmt.Sprintf("w%d", i), WDel: r.Chance(40)}
			if r.Bool() {
				o.Op = "riterw"
			}
			o.Second = r.Chance(40)
			if r.Chance(30) && o.Start == nil {
				o.WKey = B(cAlpha[r.Intn(3)]) // early keys: likely the one the iterator stands on
			}
		case x < 91:
			o = COp{Op: "write"}
			if r.Chance(15) {
				o = COp{Op: "getnil"}
			}
		case x < 96:
			if depth < 4 {
				o = COp{Op: "wrap"}
				depth++
			} else {
				o = COp{Op: "get", Key: B("a")}
			}
		default:
			if depth > 0 {
				o = COp{Op: "discard"}
				depth--
			} else {
				o = COp{Op: "write"}
			}
		}
		if p.Parent != "iavl" && r.Chance(5) && (o.Op == "get" || o.Op == "has" || o.Op == "set" || o.Op == "del") {
			o.Key = B("") // the zero-length key (a prefix store's key equal to its prefix)
		}
		p.Ops = append(p.Ops, o)
		if o.Op == "write" && r.Chance(60) {
			// the wrapper is clean now: somebody else (a sibling wrapper, the owner of the parent) changes the parent
			// directly before the wrapper is used again
			for j := 0; j < 1+r.Intn(3); j++ {
				p.Ops = append(p.Ops, COp{Op: "pmod", Key: B(cAlpha[r.Intn(len(cAlpha))]), Val: fmt.Sprintf("p%d.%d", i, j), WDel: r.Chance(40)})
			}
			p.Ops = append(p.Ops, COp{Op: "get", Key: p.Ops[len(p.Ops)-1].Key})
		}
	}
	return p
}

type smap map[string]string

func (m smap) clone() smap {
	n := smap{}
	for k, v := range m {
		n[k] = v
	}
	return n
}

func inDomain(k string, s, e *B) bool {
	if s != nil && k < string(*s) {
		return false
	}
	if e != nil && k >= string(*e) {
		return false
	}
	return true
}

func (m smap) rng(s, e *B, asc bool) [][2]string {
	var ks []string
	for k := range m {
		if inDomain(k, s, e) {
			ks = append(ks, k)
		}
	}
	sort.Strings(ks)
	if !asc {
		for i, j := 0, len(ks)-1; i < j; i, j = i+1, j-1 {
			ks[i], ks[j] = ks[j], ks[i]
		}
	}
	out := make([][2]string, len(ks))
	for i, k := range ks {
		out[i] = [2]string{k, m[k]}
	}
	return out
}

func bnd(s *B) []byte {
	if s == nil {
		return nil
	}
	return []byte(*s)
}

func drain(it stypes.Iterator) (out [][2]string) {
	for ; it.Valid(); it.Next() {
		out = append(out, [2]string{string(it.Key()), string(it.Value())})
	}
	it.Close()
	return
}

func newBase(kind string, init map[B]string) (stypes.KVStore, func() smap) {
	var st stypes.KVStore
	switch kind {
	case "iavl":
		tree := tiavl.NewMutableTree(dbm.NewMemDB(), 100)
		st = iavl.UnsafeNewStore(tree, 0, 0)
	case "prefix":
		st = prefix.NewStore(dbadapter.Store{DB: dbm.NewMemDB()}, []byte("p/"))
	case "cache":
		st = cachekv.NewStore(dbadapter.Store{DB: dbm.NewMemDB()})
	default:
		st = dbadapter.Store{DB: dbm.NewMemDB()}
	}
	for k, v := range init {
		st.Set([]byte(k), []byte(v))
	}
	dump := func() smap {
		m := smap{}
		for _, kv := range drain(st.Iterator(nil, nil)) {
			m[kv[0]] = kv[1]
		}
		return m
	}
	return st, dump
}

func eqPairs(a, b [][2]string) bool {
	if len(a) != len(b) {
		return false
	}
	for i := range a {
		if a[i] != b[i] {
			return false
		}
	}
	return true
}

var blockedSeen int32 // set once a wrapper was found blocked after a panicking call

// RunCProg executes one program; every result is compared with the model.
func RunCProg(p *CProg, rep Reporter) {
	base, _ := newBase(p.Parent, p.Init)
	stores := []stypes.KVStore{base}
	iv := smap{}
	for k, v := range p.Init {
		iv[string(k)] = v
	}
	views := []smap{iv}
	// level 1 wrapper always exists: the store under test
	stores = append(stores, cachekv.NewStore(base))
	views = append(views, views[0].clone())
	bad := func(i int, o COp, sig, msg string) {
		rep.Violate("C15", sig, fmt.Sprintf("program op #%d %s (parent %s, depth %d): %s", i, o.Op, p.Parent, len(stores)-1, msg))
	}
	fullCheck := func(i int, o COp, lvl int, sig string) {
		got := drain(stores[lvl].Iterator(nil, nil))
		want := views[lvl].rng(nil, nil, true)
		if !eqPairs(got, want) {
			bad(i, o, sig, fmt.Sprintf("level %d holds %q, model says %q", lvl, got, want))
		}
	}
	justWritten := false // no call at all was made on the top wrapper since its Write
	blocked := false
	for i, o := range p.Ops {
		if blocked || atomic.LoadInt32(&blockedSeen) != 0 {
			return // a blocked operation was reported by this process: its goroutine still holds whatever it held
		}
		top := len(stores) - 1
		st, mv := stores[top], views[top]
		jw := justWritten
		justWritten = false
		body := func() {
			switch o.Op {
			case "getnil":
				// a call that panics inside the wrapper (nil key) must leave it usable
				if atomic.LoadInt32(&blockedSeen) != 0 {
					return // already reported by this process: do not wait for the watchdog again and again
				}
				if p1 := safely(func() { st.Get(nil) }); p1 == nil {
					return // nil keys accepted: nothing to check here
				}
				done := make(chan struct{})
				go func() {
					defer close(done)
					safely(func() { st.Has(nil) })
					safely(func() { st.Has([]byte("a")) })
					safely(func() { st.Get([]byte("a")) })
				}()
				select {
				case <-done:
					rep.Count("c15.seq.calls_after_a_panicking_call", 1)
				case <-time.After(10 * time.Second):
					bad(i, o, "wrapper-blocked-after-panic", "after Get(nil) panicked, the next Has/Get on the same wrapper did not return within 10 s (lock never released)")
					blocked = true
					atomic.StoreInt32(&blockedSeen, 1)
				}
			case "pmod":
				if !jw || top == 0 {
					return
				}
				justWritten = true
				if o.WDel {
					stores[top-1].Delete([]byte(o.Key))
					delete(views[top-1], string(o.Key))
					delete(mv, string(o.Key))
				} else {
					stores[top-1].Set([]byte(o.Key), []byte(o.Val))
					views[top-1][string(o.Key)] = o.Val
					mv[string(o.Key)] = o.Val
				}
				rep.Count("c15.seq.parent_modified_after_write", 1)
			case "get":
				got := st.Get([]byte(o.Key))
				want, ok := mv[string(o.Key)]
				if ok != (got != nil) || (ok && string(got) != want) {
					bad(i, o, "get-mismatch", fmt.Sprintf("Get(%q) = %q (nil %v), model %q (present %v)", o.Key, got, got == nil, want, ok))
				}
				rep.Count("c15.seq.get", 1)
			case "has":
				_, ok := mv[string(o.Key)]
				if st.Has([]byte(o.Key)) != ok {
					bad(i, o, "has-mismatch", fmt.Sprintf("Has(%q) != model %v", o.Key, ok))
				}
			case "set":
				st.Set([]byte(o.Key), []byte(o.Val))
				mv[string(o.Key)] = o.Val
			case "del":
				st.Delete([]byte(o.Key))
				delete(mv, string(o.Key))
			case "iter", "riter":
				asc := o.Op == "iter"
				var it stypes.Iterator
				if asc {
					it = st.Iterator(bnd(o.Start), bnd(o.End))
				} else {
					it = st.ReverseIterator(bnd(o.Start), bnd(o.End))
				}
				got := drain(it)
				want := mv.rng(o.Start, o.End, asc)
				rep.Count("c15.seq.iterations", 1)
				if len(want) > 0 {
					rep.Count("c15.seq.nonempty_iterations", 1)
				}
				if !eqPairs(got, want) {
					bad(i, o, "iterator-mismatch/"+o.Op, fmt.Sprintf("range [%v,%v) yields %q, model %q", fmtB(o.Start), fmtB(o.End), got, want))
				}
			case "iterw", "riterw":
				// writes while the iterator is open: only the weak guarantees of DESIGN §C15 are required
				asc := o.Op == "iterw"
				var it stypes.Iterator
				if asc {
					it = st.Iterator(bnd(o.Start), bnd(o.End))
				} else {
					it = st.ReverseIterator(bnd(o.Start), bnd(o.End))
				}
				before := mv.clone()
				var got [][2]string
				for n := 0; it.Valid(); n++ {
					if n == o.Steps {
						if o.WDel {
							st.Delete([]byte(o.WKey))
							delete(mv, string(o.WKey))
						} else {
							st.Set([]byte(o.WKey), []byte(o.WVal))
							mv[string(o.WKey)] = o.WVal
						}
						if o.Second {
							// an iterator created now sees exactly the current view, whatever else is open
							g2 := drain(st.Iterator(nil, nil))
							if w2 := mv.rng(nil, nil, true); !eqPairs(g2, w2) {
								bad(i, o, "second-iterator-mismatch", fmt.Sprintf("an iterator created while another is open yields %q, model %q", g2, w2))
							}
							rep.Count("c15.seq.second_iterators_while_open", 1)
						}
					}
					got = append(got, [2]string{string(it.Key()), string(it.Value())})
					it.Next()
				}
				it.Close()
				rep.Count("c15.seq.iterations_with_interleaved_write", 1)
				for j, kv := range got {
					if !inDomain(kv[0], o.Start, o.End) {
						bad(i, o, "open-iterator/out-of-range", fmt.Sprintf("yielded %q outside [%v,%v)", kv[0], fmtB(o.Start), fmtB(o.End)))
					}
					if j > 0 && ((asc && got[j-1][0] >= kv[0]) || (!asc && got[j-1][0] <= kv[0])) {
						bad(i, o, "open-iterator/not-monotone", fmt.Sprintf("keys not strictly monotone: %q", got))
					}
					b, bok := before[kv[0]]
					a, aok := mv[kv[0]]
					if !((bok && b == kv[1]) || (aok && a == kv[1])) {
						bad(i, o, "open-iterator/phantom-value", fmt.Sprintf("yielded %q=%q which the key never held (before %q after %q)", kv[0], kv[1], b, a))
					}
				}
				seen := map[string]bool{}
				for _, kv := range got {
					seen[kv[0]] = true
				}
				for k, v := range before {
					if a, ok := mv[k]; ok && a == v && inDomain(k, o.Start, o.End) && k != string(o.WKey) && !seen[k] {
						bad(i, o, "open-iterator/lost-stable-key", fmt.Sprintf("key %q was constant and in range but not yielded: %q", k, got))
					}
				}
			case "write":
				if top == 0 {
					return
				}
				// the parent must still be untouched right before Write
				fullCheck(i, o, top-1, "parent-changed-before-write")
				st.(stypes.CacheKVStore).Write()
				views[top-1] = mv.clone()
				rep.Count("c15.seq.writes", 1)
				fullCheck(i, o, top-1, "parent-after-write")
				fullCheck(i, o, top, "wrapper-after-write")
				justWritten = true
			case "wrap":
				var w stypes.KVStore
				if cw, ok := st.(interface{ CacheWrap() stypes.CacheWrap }); ok && i%2 == 0 {
					w = cw.CacheWrap().(stypes.KVStore)
				} else {
					w = cachekv.NewStore(st)
				}
				stores = append(stores, w)
				views = append(views, mv.clone())
				rep.Count("c15.seq.wraps", 1)
			case "discard":
				if top <= 1 {
					return
				}
				stores, views = stores[:top], views[:top]
				rep.Count("c15.seq.discards", 1)
				fullCheck(i, o, top-1, "discard-had-effect")
			}
		}
		var perr interface{}
		if o.Op == "iter" || o.Op == "riter" || o.Op == "iterw" || o.Op == "riterw" {
			// iterators own goroutines and locks in some stores: an operation that never returns is told by a watchdog
			done := make(chan interface{}, 1)
			go func() { done <- safely(body) }()
			select {
			case perr = <-done:
			case <-time.After(15 * time.Second):
				bad(i, o, "iterator-operation-blocked", fmt.Sprintf("range [%v,%v): creating, draining or closing the iterator did not return within 15 s", fmtB(o.Start), fmtB(o.End)))
				atomic.StoreInt32(&blockedSeen, 1)
				return
			}
		} else {
			perr = safely(body)
		}
		if perr != nil {
			bad(i, o, "panic/"+o.Op, fmt.Sprintf("panicked: %v", perr))
			return
		}
	}
	for lvl := range stores {
		fullCheck(len(p.Ops), COp{Op: "final"}, lvl, "final-content")
	}
}

func fmtB(s *B) string {
	if s == nil {
		return "nil"
	}
	return fmt.Sprintf("%q", string(*s))
}

// ---- cachemulti ---------------------------------------------------------------------------------

// ---- concurrent histories checked with porcupine -------------------------------------------------

type kvIn struct {
	Op  string // get has set del
	Key string
	Val string
}
type kvOut struct {
	Val   string
	Found bool
}

var kvModel = porcupine.Model{
	Partition: func(history []porcupine.Operation) [][]porcupine.Operation {
		m := map[string][]porcupine.Operation{}
		var keys []string
		for _, op := range history {
			k := op.Input.(kvIn).Key
			if _, ok := m[k]; !ok {
				keys = append(keys, k)
			}
			m[k] = append(m[k], op)
		}
		sort.Strings(keys)
		out := make([][]porcupine.Operation, 0, len(keys))
		for _, k := range keys {
			out = append(out, m[k])
		}
		return out
	},
	Init: func() interface{} { return "\x00absent" },
	Step: func(state, input, output interface{}) (bool, interface{}) {
		st := state.(string)
		in := input.(kvIn)
		out := output.(kvOut)
		switch in.Op {
		case "set":
			return true, in.Val
		case "del":
			return true, "\x00absent"
		case "get":
			if st == "\x00absent" {
				return !out.Found, st
			}
			return out.Found && out.Val == st, st
		case "has":
			return out.Found == (st != "\x00absent"), st
		}
		return false, st
	},
	DescribeOperation: func(input, output interface{}) string {
		return fmt.Sprintf("%v -> %v", input, output)
	},
}

// slowParent delays at the parent's I/O (an existing suspension point): inside the wrapper's lock in the
// unchanged code it adds nothing; if the lock were narrowed it widens the window.
type slowParent struct {
	stypes.KVStore
	spin int
}

func (s slowParent) pause() {
	for i := 0; i < s.spin; i++ {
		runtimeGosched()
	}
}
func (s slowParent) Get(k []byte) []byte { s.pause(); v := s.KVStore.Get(k); s.pause(); return v }
func (s slowParent) Has(k []byte) bool   { s.pause(); return s.KVStore.Has(k) }
func (s slowParent) Set(k, v []byte)     { s.pause(); s.KVStore.Set(k, v) }
func (s slowParent) Delete(k []byte)     { s.pause(); s.KVStore.Delete(k) }

type ConcStats struct {
	Ops        int
	Overlaps   int
	PerKey     map[string]int
	Writes     int
	Iterations int
}

// RunConcurrent runs goroutines against one wrapper, records the history at the client boundary and checks it.
// It returns (result, stats): result "ok" | "illegal" | "unknown".
func RunConcurrent(seed uint64, goroutines, opsEach, nkeys int) (string, ConcStats, []porcupine.Operation) {
	base := dbadapter.Store{DB: dbm.NewMemDB()}
	keys := cAlpha[:nkeys]
	r0 := sim.NewRand(seed)
	init := map[string]string{}
	for _, k := range keys {
		if r0.Bool() {
			init[k] = "init-" + k
			base.Set([]byte(k), []byte(init[k]))
		}
	}
	w := cachekv.NewStore(slowParent{KVStore: base, spin: r0.Intn(3)})
	var clock, writes, iters int64
	var mu sync.Mutex
	var hist []porcupine.Operation
	var wg sync.WaitGroup
	for g := 0; g < goroutines; g++ {
		wg.Add(1)
		go func(g int) {
			defer wg.Done()
			r := sim.NewRand(seed*1315423911 + uint64(g))
			local := make([]porcupine.Operation, 0, opsEach)
			for i := 0; i < opsEach; i++ {
				k := keys[r.Intn(len(keys))]
				in := kvIn{Key: k}
				var out kvOut
				switch x := r.Intn(20); {
				case x < 7:
					in.Op = "get"
				case x < 9:
					in.Op = "has"
				case x < 14:
					in.Op, in.Val = "set", fmt.Sprintf("g%d-%d", g, i) // unique value: a read identifies its write
				case x < 17:
					in.Op = "del"
				case x < 18:
					// Write flushes to the parent and leaves the view as it is: not an event of the history, but every
					// Set / Delete that returned before or during it must survive it
					w.Write()
					atomic.AddInt64(&writes, 1)
					continue
				default:
					// an iteration over everything is one read per key, all spanning the whole iteration
					call := atomic.AddInt64(&clock, 1)
					seen := map[string]string{}
					it := w.Iterator(nil, nil)
					for ; it.Valid(); it.Next() {
						seen[string(it.Key())] = string(it.Value())
					}
					it.Close()
					ret := atomic.AddInt64(&clock, 1)
					for _, kk := range keys {
						v, ok := seen[kk]
						// (a key deleted under the parent's lazy iterator reads as an empty value: absent)
						local = append(local, porcupine.Operation{ClientId: g, Input: kvIn{Op: "get", Key: kk}, Call: call, Output: kvOut{Val: v, Found: ok && v != ""}, Return: ret})
					}
					atomic.AddInt64(&iters, 1)
					continue
				}
				call := atomic.AddInt64(&clock, 1)
				switch in.Op {
				case "get":
					v := w.Get([]byte(k))
					out = kvOut{Val: string(v), Found: v != nil}
				case "has":
					out = kvOut{Found: w.Has([]byte(k))}
				case "set":
					w.Set([]byte(k), []byte(in.Val))
				case "del":
					w.Delete([]byte(k))
				}
				ret := atomic.AddInt64(&clock, 1)
				local = append(local, porcupine.Operation{ClientId: g, Input: in, Call: call, Output: out, Return: ret})
			}
			mu.Lock()
			hist = append(hist, local...)
			mu.Unlock()
		}(g)
	}
	wg.Wait()
	// initial values enter the history as writes that precede everything
	var full []porcupine.Operation
	t := int64(-1000)
	for k, v := range init {
		full = append(full, porcupine.Operation{ClientId: goroutines, Input: kvIn{Op: "set", Key: k, Val: v}, Call: t, Output: kvOut{}, Return: t + 1})
		t += 2
	}
	full = append(full, hist...)
	st := ConcStats{Ops: len(hist), PerKey: map[string]int{}, Writes: int(writes), Iterations: int(iters)}
	sort.Slice(hist, func(i, j int) bool { return hist[i].Call < hist[j].Call })
	maxRet := int64(-1 << 62)
	for _, op := range hist {
		st.PerKey[op.Input.(kvIn).Key]++
		if op.Call < maxRet {
			st.Overlaps++
		}
		if op.Return > maxRet {
			maxRet = op.Return
		}
	}
	res := porcupine.CheckOperationsTimeout(kvModel, full, 2*time.Minute)
	switch res {
	case porcupine.Ok:
		return "ok", st, nil
	case porcupine.Illegal:
		return "illegal", st, full
	}
	return "unknown", st, nil
}

var _ = bytes.Equal

// ---- cache multistore: all substores are written together, none before Write -------------------------

type CMOp struct {
	Store int    `json:"s"`
	Del   bool   `json:"d,omitempty"`
	Key   B      `json:"k"`
	Val   string `json:"v,omitempty"`
}

type CMProg struct {
	NStores int      `json:"stores"`
	Rounds  [][]CMOp `json:"rounds"` // ops of each cache-wrap round
	Commit  []bool   `json:"commit"` // Write() or discard after each round
	Nested  []bool   `json:"nested"` // run the round inside a second-level CacheMultiStore that is written first
}

func GenCMProg(r *sim.Rand) CMProg {
	p := CMProg{NStores: 1 + r.Intn(4)}
	for i := 0; i < 2+r.Intn(6); i++ {
		var ops []CMOp
		for j := 0; j < r.Intn(10); j++ {
			o := CMOp{Store: r.Intn(p.NStores), Key: B(cAlpha[r.Intn(len(cAlpha))])}
			if r.Chance(30) {
				o.Del = true
			} else {
				o.Val = fmt.Sprintf("r%d.%d", i, j)
			}
			ops = append(ops, o)
		}
		p.Rounds = append(p.Rounds, ops)
		p.Commit = append(p.Commit, r.Chance(70))
		p.Nested = append(p.Nested, r.Chance(30))
	}
	return p
}

// RunCMProg checks the cache multistore obtained from a real rootmulti store.
func RunCMProg(p *CMProg, rep Reporter) {
	h := &MSHist{NStores: p.NStores, Pruning: &[2]int64{0, 1}}
	in := openMS(dbm.NewMemDB(), h)
	if err := in.rs.LoadLatestVersion(); err != nil {
		return
	}
	model := make(content, p.NStores)
	for i := range model {
		model[i] = map[string]string{}
	}
	for ri, ops := range p.Rounds {
		cms := in.rs.CacheMultiStore()
		target := cms
		if p.Nested[ri] {
			target = cms.CacheMultiStore()
		}
		view := cloneContent(model)
		for _, o := range ops {
			st := target.GetKVStore(in.keys[o.Store])
			if o.Del {
				st.Delete([]byte(o.Key))
				delete(view[o.Store], string(o.Key))
			} else {
				st.Set([]byte(o.Key), []byte(o.Val))
				view[o.Store][string(o.Key)] = o.Val
			}
		}
		rep.Count("c15.cachemulti.rounds", 1)
		// the overlay shows the writes, the root multistore does not (yet)
		for si := range in.keys {
			got := map[string]string{}
			for _, kv := range drain(target.GetKVStore(in.keys[si]).Iterator(nil, nil)) {
				got[kv[0]] = kv[1]
			}
			if d := diffContent(content{view[si]}, content{got}); d != "" {
				rep.Violate("C15", "cachemulti-view", fmt.Sprintf("round %d: cache multistore view of store%d differs from the overlay model: %s", ri, si, d))
			}
		}
		if d := diffContent(model, in.dump(h)); d != "" {
			rep.Violate("C15", "cachemulti-parent-changed-before-write", fmt.Sprintf("round %d: the root multistore changed before Write: %s", ri, d))
		}
		if p.Commit[ri] {
			if p.Nested[ri] {
				target.Write()
				if d := diffContent(model, in.dump(h)); d != "" {
					rep.Violate("C15", "cachemulti-parent-changed-before-write", fmt.Sprintf("round %d: writing the inner cache multistore already changed the root: %s", ri, d))
				}
			}
			cms.Write()
			model = view
			rep.Count("c15.cachemulti.writes", 1)
			if d := diffContent(model, in.dump(h)); d != "" {
				rep.Violate("C15", "cachemulti-after-write", fmt.Sprintf("round %d: after Write the root multistore differs from the overlaid view: %s", ri, d))
			}
		} else {
			rep.Count("c15.cachemulti.discards", 1)
			if d := diffContent(model, in.dump(h)); d != "" {
				rep.Violate("C15", "cachemulti-discard-had-effect", fmt.Sprintf("round %d: a discarded cache multistore changed the root: %s", ri, d))
			}
		}
	}
}

// ---- tracing through cache multistores (C16: "the trace records every operation in order") ------------------------

type traceRec struct {
	Operation string `json:"operation"`
	Key       string `json:"key"`
	Value     string `json:"value"`
	Meta      string `json:"-"` // metadata rendered as sorted key=value pairs
}

func renderMeta(m map[string]interface{}) string {
	var ks []string
	for k := range m {
		ks = append(ks, k)
	}
	sort.Strings(ks)
	out := ""
	for _, k := range ks {
		out += fmt.Sprintf("%s=%v;", k, m[k])
	}
	return out
}

// RunCMTrace: a rootmulti store with a tracer set hands out cache multistores (one or two levels) whose stores — IAVL
// and transient — are traced. Reference: at every Write of a level, each store flushes its dirty keys in ascending order,
// one "write"/"delete" record per key with the key and the flushed value; a key written through two levels is recorded
// twice (once per flush). Read records are not judged (they depend on what each level has cached). Keys carry their
// store index, so records can be attributed although cachemulti flushes its stores in map order.
func RunCMTrace(p *CMProg, rep Reporter) {
	h := &MSHist{NStores: p.NStores, Pruning: &[2]int64{0, 1}}
	in := openMS(dbm.NewMemDB(), h)
	var buf bytes.Buffer
	in.rs.SetTracer(&buf)
	in.rs.SetTracingContext(stypes.TraceContext(map[string]interface{}{"blockHeight": 7}))
	if err := in.rs.LoadLatestVersion(); err != nil {
		return
	}
	storeOf := func(i int) stypes.StoreKey {
		if i >= p.NStores {
			return in.tkey
		}
		return in.keys[i]
	}
	lastTx := ""
	for ri, ops := range p.Rounds {
		cms := in.rs.CacheMultiStore()
		target := cms
		levels := 1
		if p.Nested[ri] {
			target = cms.CacheMultiStore()
			levels = 2
		}
		// the context of the unit of work is attached after the wrappers exist (baseapp: block height per block on the
		// root store, transaction hash per transaction on the cache multistore); every later line carries it
		// (SetTracingContext merges by key into the context shared by the root store and all its wrappers, so an entry
		// stays until it is overwritten)
		if ri%2 == 1 {
			lastTx = fmt.Sprintf("TX%d", ri)
			target.SetTracingContext(stypes.TraceContext(map[string]interface{}{"txHash": lastTx}))
			rep.Count("c16.cmtrace.context_set_after_wrapping", 1)
		}
		wantMeta := "blockHeight=7;"
		if lastTx != "" {
			wantMeta += "txHash=" + lastTx + ";"
		}
		// dirty sets per store: last operation per key
		type last struct {
			del bool
			val string
		}
		dirty := map[int]map[string]last{}
		for _, o := range ops {
			key := fmt.Sprintf("s%d/%s", o.Store, string(o.Key))
			st := target.GetKVStore(storeOf(o.Store))
			if dirty[o.Store] == nil {
				dirty[o.Store] = map[string]last{}
			}
			if o.Del {
				st.Delete([]byte(key))
				dirty[o.Store][key] = last{del: true}
			} else {
				st.Set([]byte(key), []byte(o.Val))
				dirty[o.Store][key] = last{val: o.Val}
			}
			if len(ops)%3 == 0 {
				st.Get([]byte(key)) // reads in between: their records are skipped by the judge
			}
		}
		if !p.Commit[ri] {
			continue
		}
		buf.Reset()
		if levels == 2 {
			target.Write()
		}
		cms.Write()
		rep.Count("c16.cmtrace.flushes", int64(levels))
		// parse the records written during the flushes
		got := map[int][]traceRec{}
		for _, line := range bytes.Split(buf.Bytes(), []byte("\n")) {
			if len(line) == 0 {
				continue
			}
			var tr traceRec
			var md struct {
				Metadata map[string]interface{} `json:"metadata"`
			}
			if json.Unmarshal(line, &tr) != nil || json.Unmarshal(line, &md) != nil {
				rep.Violate("C16", "cmtrace-unparsable-line", fmt.Sprintf("trace line %q is not a JSON record", line))
				continue
			}
			tr.Meta = renderMeta(md.Metadata)
			if tr.Operation != "write" && tr.Operation != "delete" {
				continue
			}
			k, _ := base64.StdEncoding.DecodeString(tr.Key)
			v, _ := base64.StdEncoding.DecodeString(tr.Value)
			tr.Key, tr.Value = string(k), string(v)
			si := -1
			fmt.Sscanf(tr.Key, "s%d/", &si)
			got[si] = append(got[si], tr)
			rep.Count("c16.cmtrace.write_records", 1)
		}
		for si, d := range dirty {
			var keys []string
			for k := range d {
				keys = append(keys, k)
			}
			sort.Strings(keys)
			var want []traceRec
			for l := 0; l < levels; l++ {
				for _, k := range keys {
					if d[k].del {
						want = append(want, traceRec{Operation: "delete", Key: k, Meta: wantMeta})
					} else {
						want = append(want, traceRec{Operation: "write", Key: k, Value: d[k].val, Meta: wantMeta})
					}
				}
			}
			kind := "iavl"
			if si >= p.NStores {
				kind = "transient"
			}
			if fmt.Sprint(got[si]) != fmt.Sprint(want) {
				rep.Violate("C16", fmt.Sprintf("cmtrace-flush-records/%s/levels=%d", kind, levels), fmt.Sprintf("round %d: flushing %d level(s) of cache multistore over a traced root: %s store %d recorded %v, the flushed operations are %v", ri, levels, kind, si, got[si], want))
			}
		}
	}
}

// RunCBulk: wrappers that hold MANY unflushed entries (sizes around powers of two and the thresholds at which
// implementations switch strategy): sets and deletes in PRNG order over a parent that already holds part of the keys,
// then iterations over whole and partial domains in both directions, before and after the flush, against the sorted-map
// model. Returns the number of iterations compared.
func RunCBulk(r *sim.Rand, n int, rep Reporter) int {
	kinds := []string{"mem", "iavl", "prefix", "cache"}
	parent, dump := newBase(kinds[r.Intn(len(kinds))], nil)
	model := smap{}
	key := func(i int) string { return fmt.Sprintf("k%06d", i) }
	for i := 0; i < n; i += 1 + r.Intn(4) {
		parent.Set([]byte(key(i)), []byte("p"))
		model[key(i)] = "p"
	}
	w := cachekv.NewStore(parent)
	order := make([]int, n)
	for i := range order {
		order[i] = i
	}
	for i := n - 1; i > 0; i-- {
		j := r.Intn(i + 1)
		order[i], order[j] = order[j], order[i]
	}
	compared := 0
	check := func(st stypes.KVStore, when string) {
		for q := 0; q < 6; q++ {
			var s, e *B
			switch q {
			case 1:
				e = strp(key(n)) // everything below a bound above all keys
			case 2:
				s = strp(key(r.Intn(n)))
			case 3:
				e = strp(key(r.Intn(n)))
			case 4, 5:
				a, b := r.Intn(n), r.Intn(n)
				if a > b {
					a, b = b, a
				}
				s, e = strp(key(a)), strp(key(b))
			}
			for _, asc := range []bool{true, false} {
				var got [][2]string
				perr := safely(func() {
					if asc {
						got = drain(st.Iterator(bnd(s), bnd(e)))
					} else {
						got = drain(st.ReverseIterator(bnd(s), bnd(e)))
					}
				})
				want := model.rng(s, e, asc)
				compared++
				if perr != nil {
					rep.Violate("C15", "bulk-iterator-panic", fmt.Sprintf("%d entries, %s, domain [%s,%s) asc=%v: %v", n, when, fmtB(s), fmtB(e), asc, perr))
					return
				}
				if !eqPairs(got, want) {
					first := ""
					for i := 0; i < len(got) || i < len(want); i++ {
						if i >= len(got) || i >= len(want) || got[i] != want[i] {
							first = fmt.Sprintf("position %d", i)
							if i < len(want) {
								first += " expected " + want[i][0]
							}
							if i < len(got) {
								first += " got " + got[i][0]
							}
							break
						}
					}
					rep.Violate("C15", "bulk-iterator-mismatch", fmt.Sprintf("wrapper with %d unflushed entries, %s, domain [%s,%s) asc=%v: %d pairs, model %d; %s", n, when, fmtB(s), fmtB(e), asc, len(got), len(want), first))
					return
				}
			}
		}
	}
	for c, i := range order {
		if r.Chance(20) {
			w.Delete([]byte(key(i)))
			delete(model, key(i))
		} else {
			v := fmt.Sprintf("v%d", c)
			w.Set([]byte(key(i)), []byte(v))
			model[key(i)] = v
		}
	}
	check(w, "all entries unflushed, first iteration")
	// a second batch on top of entries that an iteration has already seen
	for c := 0; c < n/3; c++ {
		i := r.Intn(n)
		if r.Chance(30) {
			w.Delete([]byte(key(i)))
			delete(model, key(i))
		} else {
			w.Set([]byte(key(i)), []byte("w"))
			model[key(i)] = "w"
		}
	}
	check(w, "second batch on top of iterated entries")
	w.Write()
	check(w, "after Write")
	if d := dump(); len(d) != len(model) {
		rep.Violate("C15", "bulk-final-content", fmt.Sprintf("%d entries flushed: parent holds %d keys, model %d", n, len(d), len(model)))
	}
	rep.Count("c15.bulk.programs", 1)
	rep.Count("c15.bulk.iterations_compared", int64(compared))
	return compared
}
