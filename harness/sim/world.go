package sim

import (
	"math"
	"encoding/hex"
	"fmt"
	"math/big"
	"sort"
	"time"

	dbm "github.com/tendermint/tm-db"

	sdk "github.com/pokt-network/posmint/types"
	authTypes "github.com/pokt-network/posmint/x/auth/types"
	posTypes "github.com/pokt-network/posmint/x/pos/types"
)

// Profile tunes the random-walk generator. All fields are plain data so that a profile can be logged.
type Profile struct {
	Name        string
	Blocks      int
	NEd, NSecp  int
	GenesisVals int
	CustomPos   bool
	Pos         posTypes.Params
	Pruning     *[2]int64
	MaxTx       int
	W           map[string]int // action weights
	EvidencePct int            // per block
	FatalEvPct  int            // share of evidence that is expected to kill the node (old / tombstoned / unknown)
	OldEvPct    int            // share of evidence aged beyond MaxEvidenceAge
	NearOldEvPct int           // (sub-second histories) share of evidence older than MaxEvidenceAge by less than a second
	AwardPct    int
	BurnPct     int
	ReadsPct    int // chance of a read-only call after each call
	ProbePct    int // chance that a DeliverTx is preceded by CheckTx of the same bytes
	RestartPct  int
	HostilePct  int // share of built txs that get a hostile variant
	Steps       []int64 // block-time steps in seconds
	MissLevels  []int   // per-validator miss percent levels
	PhaseLen    int
	UnknownPropPct int
	FeeMultiplier  int64
	AimPct         int  // chance per block that the block time is aimed at a pending maturity / jail expiry (+-1 s)
	SecondDenom    bool // some genesis accounts also hold a second denomination ("abc"); fees may be offered in it
	Whale          bool // one account holds ~2^90 tokens and stakes amounts whose power does not fit an int64
	SecpValidators    bool  // consensus parameters allow secp256k1 validator keys as well
	Trace             bool  // the application runs with a store tracer
	BlockMaxGas       int64 // > 0: block gas limit of the consensus parameters
	EdgeAddresses     bool // two of the genesis validators have addresses ending in 0xFF and 0x00
	UnstakingTimeChanges bool // governance changes pos/UnstakingTime (both directions) while validators are unstaking
	WindowChanges     bool   // governance changes pos/SignedBlocksWindow in the middle of the history
	OddGenesis        string // a deliberately inconsistent pos genesis (see GenesisConfig.Defect)
	HugeGenesisStake  bool   // a genesis validator whose stake exceeds int64
	ImpliedSupply     bool // the genesis file states no supply (auth sums the accounts in the store; pos is initialised first) and repeats an account entry
	RichGenesis       bool // genesis validators in jail / unstaking (with signing infos and queue entries), as in an exported state
	ExportedGenesis   bool // ... and the pos genesis is marked "exported" with previous-state powers
	HugeFeeMultipliers bool // governance may set a per-message fee multiplier whose product with the base fee overflows int64
	ForeignKeyAccount bool // genesis holds an account whose recorded public key belongs to somebody else's address
	SubSecond      bool // block times carry nanoseconds (Tendermint's do); jail expiries, maturities and evidence ages are hit to the nanosecond
	MinStakeRaises bool // governance may raise pos/StakeMinimum in mid-history
	NoDAOOwner     bool // genesis leaves the DAO owner empty (the shipped default): nobody may spend DAO funds
	QueryHeavy     bool // reads are mostly /store/<name>/key queries over interesting keys and heights
}

func DefaultProfile() Profile {
	return Profile{
		Name: "default", Blocks: 120, NEd: 10, NSecp: 3, GenesisVals: 4, MaxTx: 6,
		W: map[string]int{"stake": 14, "unstake": 8, "unjail": 8, "send": 14, "govparam": 6, "dao": 5, "upgrade": 1, "acl": 2, "bytes": 4},
		AimPct: 10, EvidencePct: 4, FatalEvPct: 0, OldEvPct: 0, AwardPct: 25, BurnPct: 8, ReadsPct: 10, ProbePct: 15, RestartPct: 0, HostilePct: 25,
		Steps: []int64{1, 1, 5, 30, 60, 600}, MissLevels: []int{0, 0, 0, 5, 40, 70, 100}, PhaseLen: 25, UnknownPropPct: 5, FeeMultiplier: 1,
	}
}

// SmallWindowPos returns pos params with a short window / short unstaking time so that
// downtime, jailing and maturity all happen within a 100-block history.
func SmallWindowPos(r *Rand) posTypes.Params {
	p := posTypes.DefaultParams()
	p.SignedBlocksWindow = r.PickI64(10, 11, 15, 20)
	p.MinSignedPerWindow = []sdk.Dec{sdk.NewDecWithPrec(5, 1), sdk.NewDecWithPrec(51, 2), sdk.NewDecWithPrec(5, 2), sdk.NewDecWithPrec(9, 1), sdk.OneDec(), sdk.ZeroDec()}[r.Intn(6)]
	p.UnstakingTime = time.Duration(r.PickI64(60, 600, 3600, 7200)) * time.Second
	p.DowntimeJailDuration = time.Duration(r.PickI64(60, 120, 600)) * time.Second
	p.MaxEvidenceAge = time.Duration(r.PickI64(60, 120, 3600)) * time.Second
	p.MaxValidators = uint64(r.PickI64(1, 2, 3, 5, 100000, 100000))
	p.StakeMinimum = r.PickI64(1000000, 1000000, 2000000, 5000000, 15000000) // constant within a history
	p.SlashFractionDowntime = []sdk.Dec{sdk.NewDecWithPrec(1, 2), sdk.ZeroDec(), sdk.NewDecWithPrec(1, 18), sdk.NewDecWithPrec(333333333333333333, 18), sdk.NewDecWithPrec(5, 1)}[r.Intn(5)]
	p.SlashFractionDoubleSign = []sdk.Dec{sdk.NewDecWithPrec(5, 2), sdk.ZeroDec(), sdk.OneDec(), sdk.NewDecWithPrec(1, 18), sdk.NewDecWithPrec(1, 1)}[r.Intn(5)]
	return p
}

type aclChange struct {
	key      string
	old, new *Actor
	h        int64
}

type ExtendedAddr struct {
	Owner *Actor
	Addr  sdk.Address
}

type World struct {
	R     *Rand
	Env   *Env
	P     Profile
	Eds   []*Actor
	Secps []*Actor
	Multi []*Actor
	All   []*Actor
	ByAddr map[string]*Actor
	Anchor *Actor
	// AnchorMayMiss: the anchor validator (which otherwise always signs, so that the set never empties) follows the
	// miss pattern like everybody else
	AnchorMayMiss bool
	Gov    *Actor
	DAOOwn *Actor
	Cfg    GenesisConfig
	Now    time.Time
	entropy int64
	missPct map[string]int
	SentTxs [][]byte // previously delivered txs (for replays)
	DirectToPool *big.Int
	Strangers []sdk.Address
	OwnerOf map[string]*Actor // harness belief of ACL (only used to *choose* senders)
	Tomb map[string]bool
	// scenario hooks (deterministic scripts steer the walk through these)
	Reserved     map[string]bool     // actors the random walk must leave alone while a script drives them
	MissOverride map[string]int      // address -> miss percent, not re-drawn by phases
	StepOverride *int64              // seconds to advance at the next block
	Forced       []func() *TxSpec    // transactions delivered first in the next block
	ForcedLabel  []string
	WhaleActor  *Actor
	lastACL     *aclChange // the latest ownership hand-over attempt (key, former and new owner, block)
	Extended    []ExtendedAddr // accounts living at an actor's address plus extra bytes (funded by sends to such addresses)
	ForeignAcct sdk.Address    // genesis account whose recorded public key is ForeignKey's (it does not hash to the address)
	ForeignKey  *Actor
	StepAbs     *time.Time // scenario scripts: the time of the next block
	EvidenceFor string     // scenario scripts: the next block carries double-sign evidence against this address
	forceUnjail []string // validators whose jail expiry the block time was aimed at: they try to unjail in this block
}

func NewWorld(seed uint64, p Profile, idx *TxIndex) *World {
	r := NewRand(seed)
	w := &World{R: r, P: p, ByAddr: map[string]*Actor{}, missPct: map[string]int{}, MissOverride: map[string]int{}, Reserved: map[string]bool{}, DirectToPool: new(big.Int), OwnerOf: map[string]*Actor{}, Tomb: map[string]bool{}}
	for i := 0; i < p.NEd; i++ {
		if p.EdgeAddresses && (i == 1 || i == 2) {
			// validators whose address (hence every store prefix derived from it) ends in 0xFF / 0x00
			w.Eds = append(w.Eds, NewEdActorWithLastByte(seed, i, []byte{0, 0xFF, 0x00}[i]))
			continue
		}
		w.Eds = append(w.Eds, NewEdActor(seed, i))
	}
	for i := 0; i < p.NSecp; i++ {
		w.Secps = append(w.Secps, NewSecpActor(seed, i))
	}
	if p.NSecp >= 2 && p.NEd >= 4 {
		m0 := NewMultiActor("multi0", w.Eds[p.NEd-3], w.Secps[0])
		inner := NewMultiActor("inner", w.Secps[1], w.Eds[p.NEd-4])
		m1 := NewMultiActor("multi1", w.Eds[p.NEd-3], inner, w.Secps[0])
		w.Multi = []*Actor{m0, m1}
	}
	w.All = append(append(append([]*Actor{}, w.Eds...), w.Secps...), w.Multi...)
	for _, a := range w.All {
		w.ByAddr[a.AddrHex()] = a
	}
	w.Anchor = w.Eds[0]
	w.Gov = w.Eds[p.NEd-1]
	w.DAOOwn = w.Eds[p.NEd-2]
	for i := 0; i < 3; i++ {
		w.Strangers = append(w.Strangers, sdk.Address(r.Bytes(24)[:20]))
	}
	// genesis
	g := GenesisConfig{PosParams: posTypes.DefaultParams(), AuthParams: authTypes.DefaultParams(),
		DefOwner: w.Gov, DAOOwner: w.DAOOwn, DAOTokens: 5000000000, ACLOwner: map[string]*Actor{}}
	if p.CustomPos {
		g.PosParams = p.Pos
	}
	if p.NoDAOOwner {
		g.DAOOwner = &Actor{Name: "nobody", Addr: sdk.Address{}}
	}
	if p.FeeMultiplier > 1 {
		g.AuthParams.FeeMultiplier = authTypes.FeeMultipliers{Default: p.FeeMultiplier, FeeMultis: []authTypes.FeeMultiplier{{Key: "send", Multiplier: 2}}}
	}
	if len(w.Secps) > 0 {
		g.ACLOwner["pos/MaxValidators"] = w.Secps[0]
		g.ACLOwner["auth/MaxMemoCharacters"] = w.Secps[0]
	}
	if len(w.Multi) > 0 {
		g.ACLOwner["pos/UnstakingTime"] = w.Multi[0]
		g.ACLOwner["auth/TxSigLimit"] = w.Multi[1]
	}
	for _, k := range AllParamKeys {
		if o, ok := g.ACLOwner[k]; ok {
			w.OwnerOf[k] = o
		} else {
			w.OwnerOf[k] = w.Gov
		}
	}
	min := g.PosParams.StakeMinimum
	for i, a := range w.All {
		if p.Whale && i == p.GenesisVals+1 { // an ed25519 key that is not a genesis validator
			g.Accounts = append(g.Accounts, GenAccount{Actor: a, BalanceBig: new(big.Int).Lsh(big.NewInt(1), 90)})
			w.WhaleActor = a
			continue
		}
		if a.Multi != nil {
			continue // multisig keys cannot be listed at genesis (auth.ValidateGenesis needs a consensus-style key); funded in block 1
		}
		bal := int64(500000000) + r.Int63n(20000000000)
		if i%5 == 4 {
			bal = 3*min + r.Int63n(min)
		}
		ga := GenAccount{Actor: a, Balance: bal}
		if p.SecondDenom && i%2 == 0 {
			ga.Extra = 1000000
		}
		g.Accounts = append(g.Accounts, ga)
	}
	if p.ImpliedSupply {
		g.OmitSupply = true
		// an address listed twice (the later entry wins)
		dup := g.Accounts[r.Intn(len(g.Accounts))]
		dup.Balance, dup.BalanceBig = 700000000+r.Int63n(1000000000), nil
		g.Accounts = append(g.Accounts, dup)
	}
	if p.ForeignKeyAccount && len(w.Eds) > 3 {
		// a funded account at an address nobody holds a key for, with the attacker's public key recorded in it
		w.ForeignKey = w.Eds[3]
		w.ForeignAcct = sdk.Address(r.Bytes(24)[:20])
		g.Accounts = append(g.Accounts, GenAccount{Actor: &Actor{Name: "foreign", Addr: w.ForeignAcct, Pub: w.ForeignKey.Pub}, Balance: 500000000})
	}
	var lastCompletion *time.Time
	for i := 0; i < p.GenesisVals && i < len(w.Eds)-2; i++ {
		st := min + 1 + r.Int63n(40*min)
		if i == 0 {
			st = 1000 * min
		}
		if i > 1 && r.Chance(30) {
			st = g.Validators[i-1].Stake // equal powers
		}
		gv := GenValidator{Actor: w.Eds[i], Stake: st}
		if p.RichGenesis && i > 0 {
			// what a state exported from a running chain contains: validators in jail, validators that are unstaking
			// (a staked validator in jail is refused by pos.ValidateGenesis: not generated)
			kind := r.Intn(4)
			if i == 1 {
				kind = 0 // every rich genesis has a validator that is unstaking and in jail
			}
			switch kind {
			case 0:
				gv.Unstaking, gv.Jailed = true, true
				gv.JailedUntil = GenesisTime.Add(time.Duration(r.PickI64(-3600, 60, 600, 3600)) * time.Second)
				gv.Completion = GenesisTime.Add(time.Duration(r.PickI64(30, 600, 7200)) * time.Second)
				gv.Tombstoned = r.Chance(40) || (i == 1 && r.Bool()) // convicted on the exported chain; its jailed-until may be an ordinary time
			case 1:
				gv.Unstaking = true
				gv.Completion = GenesisTime.Add(time.Duration(r.PickI64(30, 600, 7200)) * time.Second)
			}
			if gv.Unstaking && lastCompletion != nil && r.Chance(50) {
				gv.Completion = *lastCompletion // several validators in one queue slot
			}
			if gv.Unstaking {
				c := gv.Completion
				lastCompletion = &c
			}
		}
		g.Validators = append(g.Validators, gv)
	}
	g.Defect = p.OddGenesis
	if p.HugeGenesisStake && len(g.Validators) > 1 {
		// 10^19 and a bit: more than an int64 holds, a power Tendermint accepts
		st, _ := new(big.Int).SetString("10000000000000000000", 10)
		g.Validators[len(g.Validators)-1].StakeBig = st.Add(st, big.NewInt(r.Int63n(1000000000)))
	}
	g.Exported = p.RichGenesis && p.ExportedGenesis && uint64(len(g.Validators)) <= g.PosParams.MaxValidators
	if p.RichGenesis && len(w.Eds) > p.GenesisVals+2 {
		// a key convicted of double signing on the exported chain whose validator record is gone: only its
		// (tombstoned) signing info travels in the genesis state
		t := w.Eds[p.GenesisVals]
		g.Tombstoned = append(g.Tombstoned, t)
		g.OmitInnerAddr = r.Bool()
		w.Tomb[t.AddrHex()] = true
	}
	w.Cfg = g
	w.Now = GenesisTime
	w.Env = NewEnv(idx)
	return w
}

func (w *World) Start(db dbm.DB) *Call {
	spec := &InitSpec{AppState: w.Cfg.AppState(), CustomPos: w.P.CustomPos, PosFirst: w.P.ImpliedSupply, Defect: w.Cfg.Defect, Pruning: w.P.Pruning, MaxGas: -1, SecpValidators: w.P.SecpValidators, Trace: w.P.Trace}
	if w.P.BlockMaxGas > 0 {
		spec.MaxGas = w.P.BlockMaxGas
	}
	ic := w.Env.InitChain(db, spec)
	if ic.Panic == "" && !w.Env.Dead {
		// read-only traffic before the first block (a node answers queries as soon as it is up)
		for k := 0; k < 2 && w.R.Chance(w.P.ReadsPct); k++ {
			w.RandomRead()
		}
		if w.R.Chance(w.P.ReadsPct) {
			// a module query while the genesis state is still uncommitted
			a := w.All[w.R.Intn(len(w.All))]
			data := posTypes.ModuleCdc.MustMarshalJSON(posTypes.QueryAccountBalanceParams{Address: a.Addr})
			w.Env.Query(&QuerySpec{Path: "/custom/pos/account_balance", Data: hx(data)})
		}
	}
	return ic
}

func (w *World) View() *View { return w.Env.Last().View }

func (w *World) nextEntropy() int64 { w.entropy++; return w.entropy*7919 + int64(w.R.Intn(1000)) }

// PosParam reads the current pos parameters from the snapshot through the keeper-independent raw JSON.
type CurParams struct {
	Min         int64
	Window      int64
	MaxVals     uint64
	Unstaking   time.Duration
	MaxEvAge    time.Duration
	JailDur     time.Duration
	FracDS      sdk.Dec
	FracDT      sdk.Dec
	MinSigned   sdk.Dec
	Multiplier  authTypes.FeeMultipliers
	MaxMemo     uint64
	SigLimit    uint64
}

func ParamsOf(v *View) CurParams {
	var p CurParams
	cdc := posTypes.ModuleCdc
	get := func(k string, ptr interface{}) {
		if s, ok := v.Params[k]; ok {
			_ = cdc.UnmarshalJSON([]byte(s), ptr)
		}
	}
	get("pos/StakeMinimum", &p.Min)
	get("pos/SignedBlocksWindow", &p.Window)
	get("pos/MaxValidators", &p.MaxVals)
	get("pos/UnstakingTime", &p.Unstaking)
	get("pos/MaxEvidenceAge", &p.MaxEvAge)
	get("pos/DowntimeJailDuration", &p.JailDur)
	get("pos/SlashFractionDoubleSign", &p.FracDS)
	get("pos/SlashFractionDowntime", &p.FracDT)
	get("pos/MinSignedPerWindow", &p.MinSigned)
	get("auth/FeeMultipliers", &p.Multiplier)
	get("auth/MaxMemoCharacters", &p.MaxMemo)
	get("auth/TxSigLimit", &p.SigLimit)
	return p
}

// RequiredFee computes baseFee(msgType) x multiplier from the parameter snapshot (harness-side); a product beyond
// int64 is reported as MaxInt64 (nobody can pay it; RequiredFeeBig is exact).
func (p CurParams) RequiredFee(msgType string) int64 {
	b := p.RequiredFeeBig(msgType)
	if !b.IsInt64() {
		return math.MaxInt64
	}
	return b.Int64()
}

// RequiredFeeBig is the exact product.
func (p CurParams) RequiredFeeBig(msgType string) *big.Int {
	m := p.Multiplier.Default
	for _, fm := range p.Multiplier.FeeMultis {
		if fm.Key == msgType {
			m = fm.Multiplier
			break
		}
	}
	return new(big.Int).Mul(big.NewInt(BaseFee(msgType)), big.NewInt(m))
}

// ---- block construction -------------------------------------------------------------------------

func (w *World) beginSpec() *BeginSpec {
	e := w.Env
	h := e.H + 1
	step := w.P.Steps[w.R.Intn(len(w.P.Steps))]
	cp := ParamsOf(w.View())
	if w.StepAbs != nil {
		t := *w.StepAbs
		w.StepAbs = nil
		if t.After(w.Now) {
			w.Now = t
		}
		return w.finishBeginSpec(e, h, cp)
	}
	if w.StepOverride != nil {
		step = *w.StepOverride
		w.StepOverride = nil
		w.Now = w.Now.Add(time.Duration(step) * time.Second)
		if w.P.SubSecond {
			w.Now = w.Now.Add(time.Duration(w.R.PickI64(1, 999999, 250000000, w.R.Int63n(400000000))))
		}
		return w.finishBeginSpec(e, h, cp)
	}
	w.forceUnjail = nil
	if w.R.Chance(w.P.AimPct) {
		// land exactly on / next to a pending maturity or jail expiry
		var targets []time.Time
		var who []string
		for _, q := range w.View().Queue {
			targets = append(targets, q.Time)
			who = append(who, "")
		}
		var sa []string
		for a := range w.View().Sign {
			sa = append(sa, a)
		}
		sort.Strings(sa)
		for _, a := range sa {
			s := w.View().Sign[a]
			if v, ok := w.View().Vals[a]; ok && v.Jailed && !s.Tombstoned && s.JailedUntil.After(w.Now) && s.JailedUntil.Before(w.Now.Add(48*time.Hour)) {
				targets = append(targets, s.JailedUntil)
				who = append(who, a)
			}
		}
		if len(targets) > 0 {
			i := w.R.Intn(len(targets))
			t := targets[i].Add(time.Duration(w.R.PickI64(-1, 0, 0, 1)) * time.Second)
			if w.P.SubSecond {
				// one nanosecond / a fraction of a second either side of the target as well
				t = targets[i].Add(time.Duration(w.R.PickI64(-1000000000, -999999999, -500000000, -1, 0, 0, 1, 1000000000)))
				if ns := int64(targets[i].Nanosecond()); ns > 0 && w.R.Chance(35) {
					// strictly before the target but within the same second of the clock
					t = targets[i].Add(-time.Duration(1 + w.R.Int63n(ns)))
				}
			}
			if t.After(w.Now) {
				if who[i] != "" {
					w.forceUnjail = append(w.forceUnjail, who[i])
				}
				w.Now = t
				return w.finishBeginSpec(e, h, cp)
			}
		}
	} else if w.R.Chance(3) && cp.Unstaking > 0 {
		step = int64(cp.Unstaking/time.Second) + w.R.PickI64(-1, 0, 1)
	}
	if step < 0 {
		step = 0
	}
	w.Now = w.Now.Add(time.Duration(step) * time.Second)
	if w.P.SubSecond {
		w.Now = w.Now.Add(time.Duration(w.R.PickI64(0, 1, 999999999, 500000000, w.R.Int63n(1000000000))))
	}
	return w.finishBeginSpec(e, h, cp)
}

func (w *World) finishBeginSpec(e *Env, h int64, cp CurParams) *BeginSpec {
	b := &BeginSpec{Height: h, Time: w.Now.Unix(), TimeNs: int64(w.Now.Nanosecond())}
	if vs := e.Chain.Vals[h]; vs != nil && vs.Size() > 0 {
		b.Proposer = hx(vs.GetProposer().Address)
	}
	if w.R.Chance(w.P.UnknownPropPct) {
		b.Proposer = hx(w.R.Bytes(24)[:20])
		if w.R.Chance(30) {
			b.Proposer = "" // a header without a proposer address
		}
	}
	if h >= 2 {
		if lv := e.Chain.Vals[h-1]; lv != nil {
			if (h-2)%int64(w.P.PhaseLen) == 0 {
				for _, v := range lv.Validators {
					w.missPct[hx(v.Address)] = w.P.MissLevels[w.R.Intn(len(w.P.MissLevels))]
				}
			}
			for _, v := range lv.Validators {
				a := hx(v.Address)
				signed := !w.R.Chance(w.missPct[a])
				if o, ok := w.MissOverride[a]; ok {
					signed = !w.R.Chance(o)
				}
				if a == w.Anchor.AddrHex() && !w.AnchorMayMiss {
					signed = true
				}
				pw := v.VotingPower
				if !signed && w.R.Chance(10) {
					pw = w.R.PickI64(10000000000000, 9223372036855, 1<<53) // a reported power whose token value does not fit 64 bits
				}
				b.Votes = append(b.Votes, VoteSpec{Addr: a, Power: pw, Signed: signed})
			}
		}
	}
	if w.EvidenceFor != "" && h >= 3 {
		// scenario scripts: honest double-sign evidence against this validator, from the previous height, with the
		// power Tendermint's set had for it then
		a := w.EvidenceFor
		w.EvidenceFor = ""
		eh := h - 2
		if vs := e.Chain.Vals[eh]; vs != nil {
			for _, v := range vs.Validators {
				if hx(v.Address) == a {
					b.Evidence = append(b.Evidence, EvidSpec{Addr: a, Power: v.VotingPower, Height: eh, Time: e.Chain.Times[eh].Unix(), TimeNs: int64(e.Chain.Times[eh].Nanosecond()), Total: vs.TotalVotingPower()})
				}
			}
		}
		return b
	}
	if h >= 3 && w.R.Chance(w.P.EvidencePct) {
		if ev := w.pickEvidence(h, cp); ev != nil {
			b.Evidence = append(b.Evidence, *ev)
			if w.P.FatalEvPct > 0 && EvidenceClass(w.View(), cp, *ev, w.Now) != "valid" {
				// evidence the application cannot handle (it stops the node) followed by punishable evidence in the
				// same list: either the node stops or everything punishable is punished
				save := w.P.FatalEvPct
				w.P.FatalEvPct = 0
				if ev2 := w.pickEvidence(h, cp); ev2 != nil && ev2.Addr != ev.Addr {
					b.Evidence = append(b.Evidence, *ev2)
				}
				w.P.FatalEvPct = save
			}
			if w.R.Chance(15) {
				if ev2 := w.pickEvidence(h, cp); ev2 != nil && ev2.Addr != ev.Addr {
					b.Evidence = append(b.Evidence, *ev2)
				}
			}
		}
	}
	return b
}

// EvidenceClass says what the statement of C07 promises for a piece of evidence in state v at time now.
// "valid": must burn everything; "ignore": must burn nothing.
func EvidenceClass(v *View, cp CurParams, ev EvidSpec, now time.Time) string {
	if !v.PubRel[ev.Addr] {
		return "unknown"
	}
	age := now.Sub(ev.At())
	if age > cp.MaxEvAge {
		return "old"
	}
	val, ok := v.Vals[ev.Addr]
	if !ok {
		return "removed"
	}
	if val.Status == 0 {
		return "unstaked"
	}
	if s, ok := v.Sign[ev.Addr]; ok && s.Tombstoned {
		return "tombstoned"
	}
	return "valid"
}

func (w *World) pickEvidence(h int64, cp CurParams) *EvidSpec {
	e := w.Env
	for try := 0; try < 12; try++ {
		back := int64(1 + w.R.Intn(15))
		eh := h - 1 - back
		if eh < 1 {
			eh = 1
		}
		vs := e.Chain.Vals[eh]
		if vs == nil || vs.Size() == 0 {
			continue
		}
		v := vs.Validators[w.R.Intn(vs.Size())]
		if try < 4 && len(w.View().Burns) > 0 {
			// prefer a validator that also has a burn queued for this BeginBlock (the order of the two settlements matters)
			for _, cand := range vs.Validators {
				if _, ok := w.View().Burns[hx(cand.Address)]; ok && w.R.Chance(70) {
					v = cand
					break
				}
			}
		}
		a := hx(v.Address)
		if a == w.Anchor.AddrHex() || w.Reserved[a] {
			continue
		}
		pw := v.VotingPower
		switch w.R.Intn(9) {
		case 8:
			pw = w.R.PickI64(10000000000000, 9223372036854, 9223372036855, math.MaxInt64, 1<<53) // a power whose token value does not fit 64 bits
		case 0:
			pw = pw + 1 + w.R.Int63n(50)
		case 1:
			if pw > 1 {
				pw = 1 + w.R.Int63n(pw)
			}
		}
		ev := &EvidSpec{Addr: a, Power: pw, Height: eh, Time: e.Chain.Times[eh].Unix(), TimeNs: int64(e.Chain.Times[eh].Nanosecond()), Total: vs.TotalVotingPower()}
		if w.P.SubSecond && w.R.Chance(w.P.NearOldEvPct) {
			// older than the maximum age by less than a second (not gated by FatalEvPct: on the unchanged tree the node
			// stops here, which ends the history)
			t := w.Now.Add(-cp.MaxEvAge - time.Duration(w.R.PickI64(1, 500000000, 999999999)))
			ev.Time, ev.TimeNs = t.Unix(), int64(t.Nanosecond())
			return ev
		}
		if w.R.Chance(w.P.OldEvPct) {
			t := w.Now.Add(-cp.MaxEvAge - time.Duration(1+w.R.Intn(3))*time.Second)
			if w.P.SubSecond && w.R.Chance(70) {
				// too old by a nanosecond, half a second, almost a second
				t = w.Now.Add(-cp.MaxEvAge - time.Duration(w.R.PickI64(1, 500000000, 999999999)))
			}
			ev.Time, ev.TimeNs = t.Unix(), int64(t.Nanosecond())
		} else if w.R.Chance(30) {
			// age exactly at / just inside the window
			t := w.Now.Add(-cp.MaxEvAge + time.Duration(w.R.PickI64(0, 0, 1, 30))*time.Second)
			ev.Time, ev.TimeNs = t.Unix(), int64(t.Nanosecond())
		}
		cls := EvidenceClass(w.View(), cp, *ev, w.Now)
		fatal := cls != "valid"
		// Known consequence on the unfixed tree: a valid double sign whose post-slash stake is below the
		// minimum also kills the node; the generator does not avoid it (the monitor must see it).
		if fatal && !w.R.Chance(w.P.FatalEvPct) {
			continue
		}
		return ev
	}
	return nil
}

func (w *World) extActions() (begin, end []ExtAction) {
	v := w.View()
	var valAddrs []string
	for a := range v.Vals {
		if w.Reserved[a] {
			continue // a script is driving this validator
		}
		valAddrs = append(valAddrs, a)
	}
	sort.Strings(valAddrs)
	n := 0
	if w.R.Chance(w.P.AwardPct) {
		n = 1 + w.R.Intn(3)
	}
	for i := 0; i < n; i++ {
		var ad []byte
		switch w.R.Intn(6) {
		case 0:
			ad = w.Strangers[w.R.Intn(len(w.Strangers))]
		case 1:
			ad = ModuleAddress([]string{"dao", "pos", "fee_collector", "staked_tokens_pool"}[w.R.Intn(4)])
		default:
			ad = w.All[w.R.Intn(len(w.All))].Addr
		}
		if w.R.Chance(4) {
			ad = []byte{} // a downstream module awarding "nobody" (the zero-length address)
		} else if w.R.Chance(5) {
			ad = w.R.Bytes(40)[:[]int{32, 21, 19, 33}[w.R.Intn(4)]] // an address that is not 20 bytes long
		}
		amt := w.R.PickI64(0, 1, 1000, 999999, 1000000, 123456789)
		act := ExtAction{Kind: "award", Phase: "end", Addr: ad, Amount: amt}
		if w.R.Chance(25) {
			act.Phase = "begin"
		}
		if act.Phase == "begin" {
			begin = append(begin, act)
		} else {
			end = append(end, act)
		}
		if w.R.Chance(30) { // same address twice in one block
			end = append(end, ExtAction{Kind: "award", Phase: "end", Addr: ad, Amount: 1 + w.R.Int63n(5000)})
		}
	}
	if w.R.Chance(w.P.BurnPct) && len(valAddrs) > 0 {
		a := valAddrs[w.R.Intn(len(valAddrs))]
		if a != w.Anchor.AddrHex() && v.Vals[a].Status != 0 && !w.Reserved[a] {
			ad, _ := hex.DecodeString(a)
			sev := []string{"0.0", "0.000000000000000001", "0.01", "0.1", "0.5", "1.0", "0.333333333333333333"}[w.R.Intn(7)]
			if w.R.Chance(50) {
				// a severity that leaves exactly the minimum stake, if one of the usual ones does
				tok := v.Vals[a].Tokens
				pw := new(big.Int).Quo(tok, big.NewInt(1000000))
				for _, c := range []struct {
					s string
					f int64
				}{{"0.5", 500000}, {"0.1", 100000}, {"0.01", 10000}, {"0.05", 50000}} {
					left := new(big.Int).Sub(tok, new(big.Int).Mul(pw, big.NewInt(c.f)))
					if left.Cmp(big.NewInt(ParamsOf(v).Min)) == 0 {
						sev = c.s
						break
					}
				}
			}
			end = append(end, ExtAction{Kind: "burn", Phase: "end", Addr: ad, Severity: sev})
			if w.R.Chance(25) {
				end = append(end, ExtAction{Kind: "burn", Phase: "end", Addr: ad, Severity: "0.02"})
			}
			if w.R.Chance(40) {
				// several validators burned in the same block
				for k := 0; k < 1+w.R.Intn(3); k++ {
					b := valAddrs[w.R.Intn(len(valAddrs))]
					if b != a && b != w.Anchor.AddrHex() && v.Vals[b].Status != 0 && !w.Reserved[b] {
						bd, _ := hex.DecodeString(b)
						end = append(end, ExtAction{Kind: "burn", Phase: "end", Addr: bd, Severity: []string{"0.01", "0.1", "0.5", "0.000000000000000001"}[w.R.Intn(4)]})
					}
				}
			}
		}
	}
	return
}

func (w *World) maybeRead() {
	if !w.R.Chance(w.P.ReadsPct) || w.Env.Dead {
		return
	}
	w.RandomRead()
}

// RandomRead issues one read-only call (Query of several kinds, Info, CheckTx of an old tx).
func (w *World) RandomRead() { w.RandomReadOn(w.Env) }

// RandomReadOn issues the read on another instance that is in the same state (a twin).
func (w *World) RandomReadOn(e *Env) {
	hs := []int64{0, e.H, e.H - 1, e.H - 5, 1, 2, e.H + 3}
	qh := hs[w.R.Intn(len(hs))]
	if qh < 0 {
		qh = 0
	}
	if w.P.QueryHeavy && e == w.Env && w.R.Chance(85) {
		if w.R.Chance(18) {
			// a module query without a height: the committed balance, also in the middle of a block
			a := w.All[w.R.Intn(len(w.All))]
			data := posTypes.ModuleCdc.MustMarshalJSON(posTypes.QueryAccountBalanceParams{Address: a.Addr})
			e.Query(&QuerySpec{Path: "/custom/pos/account_balance", Data: hx(data), Height: []int64{0, 0, e.H}[w.R.Intn(3)]})
			return
		}
		w.storeKeyQuery(qh)
		return
	}
	switch w.R.Intn(11) {
	case 9:
		// single-record custom queries (they go through the keepers' caches)
		a := w.All[w.R.Intn(len(w.All))]
		if vals := sortedVals(w.View()); len(vals) > 0 && w.R.Chance(70) {
			a = w.ByAddr[vals[w.R.Intn(len(vals))].Addr]
		}
		if a == nil {
			a = w.Anchor
		}
		kind := []string{"validator", "signingInfo", "account_balance"}[w.R.Intn(3)]
		var data []byte
		switch kind {
		case "validator":
			data = posTypes.ModuleCdc.MustMarshalJSON(posTypes.NewQueryValidatorParams(a.Addr))
		case "signingInfo":
			data = posTypes.ModuleCdc.MustMarshalJSON(posTypes.NewQuerySigningInfoParams(a.Addr))
		default:
			data = posTypes.ModuleCdc.MustMarshalJSON(posTypes.QueryAccountBalanceParams{Address: a.Addr})
		}
		e.Query(&QuerySpec{Path: "/custom/pos/" + kind, Data: hx(data), Height: qh})
	case 10:
		kind := []string{"staked_validators", "unstaking_validators", "unstaked_validators", "signingInfos", "parameters", "stakedPool", "unstakedPool"}[w.R.Intn(7)]
		e.Query(&QuerySpec{Path: "/custom/pos/" + kind, Data: hx(posTypes.ModuleCdc.MustMarshalJSON(posTypes.NewQueryValidatorsParams(1, 20))), Height: qh})
	case 0:
		e.Info()
	case 1:
		a := w.All[w.R.Intn(len(w.All))]
		key := append([]byte{0x01}, a.Addr...)
		e.Query(&QuerySpec{Path: "/store/auth/key", Data: hx(key), Height: qh, Prove: w.R.Bool() && qh > 1})
	case 2:
		e.Query(&QuerySpec{Path: "/store/pos/subspace", Data: hx([]byte{0x21}), Height: qh})
	case 3:
		e.Query(&QuerySpec{Path: "/custom/pos/validators", Data: hx([]byte(`{"page":"1","limit":"10"}`)), Height: qh})
	case 4:
		e.Query(&QuerySpec{Path: "/custom/gov/" + []string{"acl", "dao", "daoOwner", "upgrade", "bogus"}[w.R.Intn(5)], Height: qh})
	case 5:
		e.Query(&QuerySpec{Path: "/app/version"})
	case 6:
		e.Query(&QuerySpec{Path: []string{"/p2p/filter/addr/1.2.3.4:5", "/p2p/filter/id/abcd", "/bogus", "", "/store/nostore/key", "/custom/auth/account"}[w.R.Intn(6)], Height: qh})
	case 7:
		if len(w.SentTxs) > 0 {
			e.CheckTx(w.SentTxs[w.R.Intn(len(w.SentTxs))], "recheck-old", nil)
		} else {
			e.Info()
		}
	case 8:
		// simulate of a fresh transaction of any kind (it would succeed or fail exactly like a delivered one)
		if bz, _, _ := w.FreshTx(); bz != nil {
			e.Query(&QuerySpec{Path: "/app/simulate", Data: hx(bz)})
		}
	}
}

// storeKeyQuery asks for one key of one store: present, deleted, never written, prefix-adjacent, pending.
func (w *World) storeKeyQuery(qh int64) {
	e := w.Env
	raw := e.Last().Raw
	stores := []string{"auth", "pos", "params", "main", "pos", "auth", "nostore", "transient_params"}
	st := stores[w.R.Intn(len(stores))]
	var key []byte
	var keys []string
	for k := range raw[st] {
		keys = append(keys, k)
	}
	sort.Strings(keys)
	switch w.R.Intn(8) {
	case 0:
		key = []byte("never-written-key")
		if w.R.Chance(20) {
			key = []byte{0xff, 0xff}
		}
	case 1:
		if len(keys) > 0 {
			key = append([]byte(keys[w.R.Intn(len(keys))]), 0x00) // prefix-adjacent
		}
	case 2:
		if len(keys) > 0 {
			k := keys[w.R.Intn(len(keys))]
			if len(k) > 1 {
				key = []byte(k[:len(k)-1])
			}
		}
	case 3:
		// keys that come and go: award / burn queue entries, validator records of every actor
		a := w.All[w.R.Intn(len(w.All))]
		key = append([]byte{[]byte{0x51, 0x52, 0x21, 0x11}[w.R.Intn(4)]}, a.Addr...)
		st = "pos"
	default:
		if len(keys) > 0 {
			key = []byte(keys[w.R.Intn(len(keys))])
		}
	}
	if len(key) == 0 {
		key = []byte{0x01}
	}
	prove := w.R.Bool()
	e.Query(&QuerySpec{Path: "/store/" + st + "/key", Data: hx(key), Height: qh, Prove: prove})
}

// Block runs one full block. Returns false when the history is over.
func (w *World) Block() bool {
	e := w.Env
	if e.Dead {
		return false
	}
	b := w.beginSpec()
	xb, xe := w.extActions()
	e.BeginBlock(b, xb)
	if e.Dead {
		return false
	}
	w.maybeRead()
	if b.Height == 1 {
		// fund the multisig accounts (they cannot exist at genesis)
		for _, m := range w.Multi {
			cp := ParamsOf(w.View())
			s := &TxSpec{Msg: posTypes.MsgSend{FromAddress: w.Gov.Addr, ToAddress: m.Addr, Amount: sdk.NewInt(400000000 + w.R.Int63n(1000000000))},
				Fee: cp.RequiredFee("send"), Entropy: w.nextEntropy(), SignedBy: w.Gov, PubInSig: w.Gov.Pub}
			bz, _, _ := s.Build(e.A.Cdc)
			e.DeliverTx(bz, "fund-multisig", s)
		}
	}
	for i, f := range w.Forced {
		if s := f(); s != nil && !e.Dead {
			bz, _, _ := s.Build(e.A.Cdc)
			e.DeliverTx(bz, w.ForcedLabel[i], s)
		}
	}
	w.Forced, w.ForcedLabel = nil, nil
	if e.Dead {
		return false
	}
	ntx := w.R.Intn(w.P.MaxTx + 1)
	if len(w.forceUnjail) > ntx {
		ntx = len(w.forceUnjail)
	}
	for i := 0; i < ntx && !e.Dead; i++ {
		bz, label, spec := w.NextTx()
		if bz == nil {
			continue
		}
		if w.R.Chance(w.P.ProbePct) {
			if w.R.Chance(25) {
				e.CheckTx(bz, "recheck-probe:"+label, spec)
			} else {
				e.CheckTx(bz, "probe:"+label, spec)
			}
			if e.Dead {
				break
			}
		}
		c := e.DeliverTx(bz, label, spec)
		if c.Panic == "" {
			w.SentTxs = append(w.SentTxs, bz)
			if len(w.SentTxs) > 64 {
				w.SentTxs = w.SentTxs[1:]
			}
		}
		w.maybeRead()
	}
	if e.Dead {
		return false
	}
	e.EndBlock(xe)
	if e.Dead {
		return false
	}
	w.maybeRead()
	e.Commit()
	if e.Dead {
		return false
	}
	w.maybeRead()
	if w.R.Chance(w.P.RestartPct) {
		if err := e.Restart(); err != nil {
			e.Dead, e.DeathNote = true, "restart failed: "+err.Error()
			e.Violate("C12", "restart-failed", fmt.Sprintf("reopening after commit %d failed: %v", e.H, err), nil)
			return false
		}
		// a freshly restarted node answers reads before it executes its next block
		for k := 0; k < 1+w.R.Intn(4) && !e.Dead; k++ {
			w.RandomRead()
		}
	}
	return true
}

// Force queues a transaction for the next block.
func (w *World) Force(label string, f func() *TxSpec) {
	w.Forced = append(w.Forced, f)
	w.ForcedLabel = append(w.ForcedLabel, "scenario:"+label)
}

// Honest builds an honest transaction spec for actor a with the required fee (used by scenarios).
func (w *World) Honest(a *Actor, msg sdk.Msg) *TxSpec {
	s := w.honest(a, msg, ParamsOf(w.View()))
	s.PubInSig = a.Pub
	s.Fee = ParamsOf(w.View()).RequiredFee(msg.Type())
	return s
}

// StepTo sets the time of the next block (to the nanosecond).
func (w *World) StepTo(t time.Time) { w.StepAbs = &t }

// Step sets the time advance of the next block.
func (w *World) Step(sec int64) { w.StepOverride = &sec }

func (w *World) Run() {
	for i := 0; i < w.P.Blocks; i++ {
		if !w.Block() {
			return
		}
	}
}
