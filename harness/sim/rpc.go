package sim

import (
	"encoding/base64"
	"encoding/hex"
	"encoding/json"
	"fmt"
	"io/ioutil"
	"net"
	"net/http"
	"os"
	"strings"
	"sync"
	"sync/atomic"
)

// TxIndex is the harness's stand-in for Tendermint's tx indexer: hashes of delivered
// transactions become visible after the Commit of their block. It serves the JSON-RPC
// `tx` method on a unix socket so that the *unmodified* ante handler performs its replay lookup.
type TxIndex struct {
	mu      sync.Mutex
	indexed map[string]int64 // upper-hex hash -> height
	codes   map[string]uint32 // upper-hex hash -> DeliverTx result code
	Lookups int64
	Hits    int64
	// LimitOn/Limit: only entries indexed at a height <= Limit are visible (used when a block is re-executed:
	// Tendermint's indexer does not know the block that is being replayed)
	LimitOn bool
	Limit   int64
	Addr    string
	ln      net.Listener
	srv     *http.Server
	dir     string
}

func NewTxIndex() (*TxIndex, error) {
	dir, err := ioutil.TempDir("", "vrpc")
	if err != nil {
		return nil, err
	}
	sock := dir + "/rpc.sock"
	ln, err := net.Listen("unix", sock)
	if err != nil {
		return nil, err
	}
	t := &TxIndex{indexed: map[string]int64{}, codes: map[string]uint32{}, Addr: "unix://" + sock, ln: ln, dir: dir}
	mux := http.NewServeMux()
	mux.HandleFunc("/", t.handle)
	t.srv = &http.Server{Handler: mux}
	t.srv.SetKeepAlivesEnabled(false)
	go t.srv.Serve(ln)
	return t, nil
}

func (t *TxIndex) Close() {
	t.srv.Close()
	os.RemoveAll(t.dir)
}

func (t *TxIndex) Add(hash []byte, height int64) {
	t.mu.Lock()
	t.indexed[strings.ToUpper(hex.EncodeToString(hash))] = height
	t.mu.Unlock()
}

// AddResult indexes a transaction together with the result code of its DeliverTx, as Tendermint's indexer does.
func (t *TxIndex) AddResult(hash []byte, height int64, code uint32) {
	t.mu.Lock()
	k := strings.ToUpper(hex.EncodeToString(hash))
	t.indexed[k] = height
	t.codes[k] = code
	t.mu.Unlock()
}

func (t *TxIndex) Has(hash []byte) bool {
	t.mu.Lock()
	defer t.mu.Unlock()
	h, ok := t.indexed[strings.ToUpper(hex.EncodeToString(hash))]
	if ok && t.LimitOn && h > t.Limit {
		return false
	}
	return ok
}

func (t *TxIndex) SetLimit(on bool, h int64) {
	t.mu.Lock()
	t.LimitOn, t.Limit = on, h
	t.mu.Unlock()
}

func (t *TxIndex) Reset() {
	t.mu.Lock()
	t.indexed = map[string]int64{}
	t.codes = map[string]uint32{}
	t.LimitOn = false
	t.mu.Unlock()
}

type rpcReq struct {
	ID     json.RawMessage `json:"id"`
	Method string          `json:"method"`
	Params struct {
		Hash string `json:"hash"`
	} `json:"params"`
}

func (t *TxIndex) handle(w http.ResponseWriter, r *http.Request) {
	body, _ := ioutil.ReadAll(r.Body)
	var q rpcReq
	_ = json.Unmarshal(body, &q)
	atomic.AddInt64(&t.Lookups, 1)
	w.Header().Set("Content-Type", "application/json")
	fail := func(msg string) {
		fmt.Fprintf(w, `{"jsonrpc":"2.0","id":%s,"error":{"code":-32603,"message":"Internal error","data":%q}}`, string(q.ID), msg)
	}
	if q.Method != "tx" {
		fail("unsupported method")
		return
	}
	hb, err := base64.StdEncoding.DecodeString(q.Params.Hash)
	if err != nil {
		fail("bad hash")
		return
	}
	hx := strings.ToUpper(hex.EncodeToString(hb))
	t.mu.Lock()
	h, ok := t.indexed[hx]
	if ok && t.LimitOn && h > t.Limit {
		ok = false
	}
	code := t.codes[hx]
	t.mu.Unlock()
	if !ok {
		fail(fmt.Sprintf("Tx (%s) not found", hx))
		return
	}
	atomic.AddInt64(&t.Hits, 1)
	fmt.Fprintf(w, `{"jsonrpc":"2.0","id":%s,"result":{"hash":"%s","height":"%d","index":0,"tx_result":{"code":%d},"tx":""}}`, string(q.ID), hx, h, code)
}
