package sim

import (
	"encoding/base64"
	"encoding/hex"
	"encoding/json"
	"fmt"
	"io/ioutil"
	"net"
	"net/http"
	"os"
	"strings"
	"sync"
	"sync/atomic"
)

// TxIndex is the harness's stand-in for Tendermint's tx indexer: hashes of delivered
// transactions become visible after the Commit of their block. It serves the JSON-RPC
// `tx` method on a unix socket so that the *unmodified* ante handler performs its replay lookup.
type TxIndex struct {
	mu      sync.Mutex
	indexed map[string]int64 // upper-hex hash -> height
	codes   map[string]uint32 // upper-hex hash -> DeliverTx result code
	// earlier: a transaction included again in a later block overwrites its entry (as Tendermint's indexer does);
	// when the view is limited to a height, the entry as it was at that height is what a node re-executing the
	// following block sees
	earlier map[string][]idxEntry
	Lookups int64
	Hits    int64
	// LimitOn/Limit: only entries indexed at a height <= Limit are visible (used when a block is re-executed:
	// Tendermint's indexer does not know the block that is being replayed)
	LimitOn bool
	Limit   int64
	Addr    string
	ln      net.Listener
	srv     *http.Server
	dir     string
}

func NewTxIndex() (*TxIndex, error) {
	dir, err := ioutil.TempDir("", "vrpc")
	if err != nil {
		return nil, err
	}
	sock := dir + "/rpc.sock"
	ln, err := net.Listen("unix", sock)
	if err != nil {
		return nil, err
	}
	t := &TxIndex{indexed: map[string]int64{}, codes: map[string]uint32{}, Addr: "unix://" + sock, ln: ln, dir: dir}
	mux := http.NewServeMux()
	mux.HandleFunc("/", t.handle)
	t.srv = &http.Server{Handler: mux}
	t.srv.SetKeepAlivesEnabled(false)
	go t.srv.Serve(ln)
	return t, nil
}

func (t *TxIndex) Close() {
	t.srv.Close()
	os.RemoveAll(t.dir)
}

type idxEntry struct {
	h    int64
	code uint32
}

// remember keeps the entry that is about to be overwritten by an inclusion at a later height (lock held).
func (t *TxIndex) remember(k string, height int64) {
	if old, ok := t.indexed[k]; ok && old < height {
		if t.earlier == nil {
			t.earlier = map[string][]idxEntry{}
		}
		t.earlier[k] = append(t.earlier[k], idxEntry{old, t.codes[k]})
	}
}

// visible returns the entry of k as the index showed it at the current limit (lock held).
func (t *TxIndex) visible(k string) (int64, uint32, bool) {
	h, ok := t.indexed[k]
	if !ok {
		return 0, 0, false
	}
	if !t.LimitOn || h <= t.Limit {
		return h, t.codes[k], true
	}
	best, found := idxEntry{}, false
	for _, e := range t.earlier[k] {
		if e.h <= t.Limit && (!found || e.h > best.h) {
			best, found = e, true
		}
	}
	return best.h, best.code, found
}

func (t *TxIndex) Add(hash []byte, height int64) {
	t.mu.Lock()
	k := strings.ToUpper(hex.EncodeToString(hash))
	t.remember(k, height)
	t.indexed[k] = height
	t.mu.Unlock()
}

// AddResult indexes a transaction together with the result code of its DeliverTx, as Tendermint's indexer does.
func (t *TxIndex) AddResult(hash []byte, height int64, code uint32) {
	t.mu.Lock()
	k := strings.ToUpper(hex.EncodeToString(hash))
	t.remember(k, height)
	t.indexed[k] = height
	t.codes[k] = code
	t.mu.Unlock()
}

func (t *TxIndex) Has(hash []byte) bool {
	t.mu.Lock()
	defer t.mu.Unlock()
	_, _, ok := t.visible(strings.ToUpper(hex.EncodeToString(hash)))
	return ok
}

func (t *TxIndex) SetLimit(on bool, h int64) {
	t.mu.Lock()
	t.LimitOn, t.Limit = on, h
	t.mu.Unlock()
}

func (t *TxIndex) Reset() {
	t.mu.Lock()
	t.indexed = map[string]int64{}
	t.codes = map[string]uint32{}
	t.earlier = nil
	t.LimitOn = false
	t.mu.Unlock()
}

type rpcReq struct {
	ID     json.RawMessage `json:"id"`
	Method string          `json:"method"`
	Params struct {
		Hash string `json:"hash"`
	} `json:"params"`
}

func (t *TxIndex) handle(w http.ResponseWriter, r *http.Request) {
	body, _ := ioutil.ReadAll(r.Body)
	var q rpcReq
	_ = json.Unmarshal(body, &q)
	atomic.AddInt64(&t.Lookups, 1)
	w.Header().Set("Content-Type", "application/json")
	fail := func(msg string) {
		fmt.Fprintf(w, `{"jsonrpc":"2.0","id":%s,"error":{"code":-32603,"message":"Internal error","data":%q}}`, string(q.ID), msg)
	}
	if q.Method != "tx" {
		fail("unsupported method")
		return
	}
	hb, err := base64.StdEncoding.DecodeString(q.Params.Hash)
	if err != nil {
		fail("bad hash")
		return
	}
	hx := strings.ToUpper(hex.EncodeToString(hb))
	t.mu.Lock()
	h, code, ok := t.visible(hx)
	t.mu.Unlock()
	if !ok {
		fail(fmt.Sprintf("Tx (%s) not found", hx))
		return
	}
	atomic.AddInt64(&t.Hits, 1)
	fmt.Fprintf(w, `{"jsonrpc":"2.0","id":%s,"result":{"hash":"%s","height":"%d","index":0,"tx_result":{"code":%d},"tx":""}}`, string(q.ID), hx, h, code)
}
