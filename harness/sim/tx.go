package sim

import (
	"github.com/pokt-network/posmint/codec"
	"github.com/pokt-network/posmint/crypto"
	sdk "github.com/pokt-network/posmint/types"
	authTypes "github.com/pokt-network/posmint/x/auth/types"
)

// TxSpec describes a transaction and, separately, who really signs what. The harness keeps the
// ground truth (SignedBy, SignedOver) so that acceptance can be judged independently of the ante handler.
type TxSpec struct {
	Msg     sdk.Msg
	Fee     int64
	FeeRaw  sdk.Coins // overrides Fee when non-nil (invalid / multi-denom fees)
	Memo    string
	Entropy int64
	ChainID string // chain id used for signing ("" => ChainID)

	SignedBy *Actor           // key(s) that produce the signature
	PubInSig crypto.PublicKey // public key placed in the signature (nil: look up from state)
	// post-signing mutation applied to the tx (msg, fee, memo, entropy, chain id are captured before it)
	Mutate func(tx *authTypes.StdTx)
	// raw signature override
	SigOverride []byte
}

func (s TxSpec) fee() sdk.Coins {
	if s.FeeRaw != nil {
		return s.FeeRaw
	}
	if s.Fee <= 0 {
		return sdk.Coins{}
	}
	return coins(s.Fee)
}

// SignedFee is the fee that went into the signed document.
func (s TxSpec) SignedFee() sdk.Coins { return s.fee() }

// Build signs and encodes. It returns the encoded bytes, the final StdTx and the bytes that were signed.
func (s TxSpec) Build(cdc *codec.Codec) (bz []byte, tx authTypes.StdTx, signed []byte) {
	cid := s.ChainID
	if cid == "" {
		cid = ChainID
	}
	fee := s.fee()
	sb, err := authTypes.StdSignBytes(cid, s.Entropy, fee, s.Msg, s.Memo)
	if err != nil {
		panic(err)
	}
	var sig []byte
	if s.SigOverride != nil {
		sig = s.SigOverride
	} else if s.SignedBy != nil {
		sig = s.SignedBy.Sign(sb)
	}
	tx = authTypes.NewStdTx(s.Msg, fee, authTypes.StdSignature{PublicKey: s.PubInSig, Signature: sig}, s.Memo, s.Entropy)
	if s.Mutate != nil {
		s.Mutate(&tx)
	}
	bz, err = cdc.MarshalBinaryLengthPrefixed(tx)
	if err != nil {
		panic(err)
	}
	return bz, tx, sb
}
