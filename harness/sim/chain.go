package sim

import (
	"fmt"
	"sort"
	"time"

	abci "github.com/tendermint/tendermint/abci/types"
	tmtypes "github.com/tendermint/tendermint/types"
)

// Chain is the trusted model of what Tendermint does with validator updates
// (state/execution.go updateState): updates returned by EndBlock(h) are applied to a copy of the
// set of block h+1 and become the set of block h+2. It uses Tendermint's own ValidatorSet.
type Chain struct {
	Vals     map[int64]*tmtypes.ValidatorSet
	Times    map[int64]time.Time
	KeyTypes []string
}

func NewChain() *Chain {
	return &Chain{Vals: map[int64]*tmtypes.ValidatorSet{}, Times: map[int64]time.Time{}, KeyTypes: []string{tmtypes.ABCIPubKeyTypeEd25519}}
}

// validateUpdates mirrors state.validateValidatorUpdates.
func (ch *Chain) validateUpdates(ups []abci.ValidatorUpdate) error {
	for _, u := range ups {
		if u.Power < 0 {
			return fmt.Errorf("voting power can't be negative %v", u)
		}
		if u.Power == 0 {
			continue
		}
		ok := false
		for _, t := range ch.KeyTypes {
			if t == u.PubKey.Type {
				ok = true
			}
		}
		if !ok {
			return fmt.Errorf("validator %v is using pubkey %s, which is unsupported for consensus", u, u.PubKey.Type)
		}
	}
	return nil
}

func (ch *Chain) Init(ups []abci.ValidatorUpdate) error {
	if err := ch.validateUpdates(ups); err != nil {
		return err
	}
	vs, err := tmtypes.PB2TM.ValidatorUpdates(ups)
	if err != nil {
		return err
	}
	seen := map[string]bool{}
	for _, v := range vs {
		if seen[string(v.Address)] {
			return fmt.Errorf("duplicate validator %X at genesis", v.Address)
		}
		seen[string(v.Address)] = true
		if v.VotingPower <= 0 {
			return fmt.Errorf("genesis validator %X with power %d", v.Address, v.VotingPower)
		}
	}
	if len(vs) == 0 {
		return fmt.Errorf("empty genesis validator set")
	}
	set := tmtypes.NewValidatorSet(vs)
	ch.Vals[1] = set
	ch.Vals[2] = set.CopyIncrementProposerPriority(1)
	return nil
}

// Apply applies the updates of EndBlock(h); the result is the validator set of block h+2.
func (ch *Chain) Apply(h int64, ups []abci.ValidatorUpdate) (err error) {
	defer func() {
		if r := recover(); r != nil {
			err = fmt.Errorf("tendermint validator-set code panicked: %v", r)
		}
	}()
	base := ch.Vals[h+1]
	if base == nil {
		return fmt.Errorf("harness: no validator set for height %d", h+1)
	}
	n := base.Copy()
	if len(ups) > 0 {
		if err := ch.validateUpdates(ups); err != nil {
			return err
		}
		vs, err := tmtypes.PB2TM.ValidatorUpdates(ups)
		if err != nil {
			return err
		}
		if err := n.UpdateWithChangeSet(vs); err != nil {
			return err
		}
	}
	n.IncrementProposerPriority(1)
	ch.Vals[h+2] = n
	return nil
}

// PowerMap returns address(hex) -> power of the set of block h.
func (ch *Chain) PowerMap(h int64) map[string]int64 {
	m := map[string]int64{}
	if vs := ch.Vals[h]; vs != nil {
		for _, v := range vs.Validators {
			m[hx(v.Address)] = v.VotingPower
		}
	}
	return m
}

func (ch *Chain) SortedAddrs(h int64) []string {
	var out []string
	for a := range ch.PowerMap(h) {
		out = append(out, a)
	}
	sort.Strings(out)
	return out
}
