// Package sim assembles the application under test (baseapp + auth/pos/gov + an "ext"
// module that plays a downstream module) exactly the way a downstream node does, and
// provides the trusted environment model (Tendermint driver), snapshots and the request log.
package sim

import (
	"encoding/json"
	"fmt"
	"io"
	"reflect"
	"unsafe"

	amino "github.com/tendermint/go-amino"
	abci "github.com/tendermint/tendermint/abci/types"
	cfg "github.com/tendermint/tendermint/config"
	"github.com/tendermint/tendermint/libs/log"
	"github.com/tendermint/tendermint/node"
	dbm "github.com/tendermint/tm-db"

	"github.com/pokt-network/posmint/baseapp"
	"github.com/pokt-network/posmint/codec"
	"github.com/pokt-network/posmint/store"
	sdk "github.com/pokt-network/posmint/types"
	"github.com/pokt-network/posmint/types/module"
	"github.com/pokt-network/posmint/x/auth"
	"github.com/pokt-network/posmint/x/gov"
	govKeeper "github.com/pokt-network/posmint/x/gov/keeper"
	govTypes "github.com/pokt-network/posmint/x/gov/types"
	"github.com/pokt-network/posmint/x/pos"
	posKeeper "github.com/pokt-network/posmint/x/pos/keeper"
	posTypes "github.com/pokt-network/posmint/x/pos/types"
)

const (
	AppVersion = "0.0.1"
	ChainID    = "verif-chain"
	Denom      = sdk.DefaultStakeDenom
)

// Fee table a downstream application installs (posmint ships PosFeeMap nil).
var posFees = map[string]int64{
	"stake_validator":           100000,
	"begin_unstaking_validator": 100000,
	"unjail":                    100000,
	"send":                      10000,
}

func init() {
	posTypes.PosFeeMap = posFees
}

// BaseFee returns the un-multiplied fee of a message type (harness-side table, independent of msg.GetFee).
func BaseFee(msgType string) int64 {
	if v, ok := posFees[msgType]; ok {
		return v
	}
	switch msgType {
	case govTypes.MsgDAOTransferName, govTypes.MsgChangeParamName, govTypes.MsgUpgradeName:
		return 10000
	}
	return 0
}

// MakeCodec registers everything the application needs.
func MakeCodec() *codec.Codec {
	cdc := codec.New()
	auth.RegisterCodec(cdc)
	posTypes.RegisterCodec(cdc)
	gov.RegisterCodec(cdc)
	sdk.RegisterCodec(cdc)
	codec.RegisterCrypto(cdc)
	return cdc
}

// Opts configures one application instance.
type Opts struct {
	Pruning    *store.PruningOptions // nil: leave the multistore's zero value (== PruneEverything)
	Tracer     io.Writer
	RPCAddr    string // unix://... of the harness tx-index endpoint
	CustomPos  bool   // InitGenesis keeps the genesis pos params (module path overwrites them with defaults)
	NoAnteNode bool   // leave tmNode nil (only for store-level tests)
	PosFirst   bool   // InitGenesis order pos, auth, gov (a genesis file without an explicit supply: auth sums what is in the store)
}

// App is one assembled application instance.
type App struct {
	*baseapp.BaseApp
	Cdc     *codec.Codec
	KeyMain *sdk.KVStoreKey
	KeyAuth *sdk.KVStoreKey
	KeyPos  *sdk.KVStoreKey
	AK      auth.Keeper
	PK      posKeeper.Keeper
	GK      govKeeper.Keeper
	MM      *module.Manager
	Ext     *ExtModule
	DB      dbm.DB
	Opts    Opts
}

// StoreNames in fixed order (for snapshots).
var StoreNames = []string{"main", "auth", "pos", "params", "transient_params"}

func (a *App) StoreKeys() []sdk.StoreKey {
	return []sdk.StoreKey{a.KeyMain, a.KeyAuth, a.KeyPos, sdk.ParamsKey, sdk.ParamsTKey}
}

// ModuleAccounts: name -> permissions (what a downstream app configures).
var MaccPerms = map[string][]string{
	auth.FeeCollectorName:   nil,
	posTypes.StakedPoolName: {auth.Burner, auth.Staking, auth.Minter},
	posTypes.ModuleName:     nil,
	govTypes.DAOAccountName: {auth.Burner, auth.Staking, auth.Minter},
}

func ModuleAddress(name string) sdk.Address { return auth.NewModuleAddress(name) }

// fakeNode builds a *node.Node whose only populated field is the config the ante handler reads.
func fakeNode(rpcAddr string) *node.Node {
	n := &node.Node{}
	c := cfg.DefaultConfig()
	c.RPC.ListenAddress = rpcAddr
	f := reflect.ValueOf(n).Elem().FieldByName("config")
	reflect.NewAt(f.Type(), unsafe.Pointer(f.UnsafeAddr())).Elem().Set(reflect.ValueOf(c))
	return n
}

// NewApp assembles an instance over db and loads the latest version.
func NewApp(db dbm.DB, o Opts) (*App, error) {
	cdc := MakeCodec()
	var bopts []func(*baseapp.BaseApp)
	if o.Pruning != nil {
		bopts = append(bopts, baseapp.SetPruning(*o.Pruning))
	}
	bapp := baseapp.NewBaseApp("verifapp", log.NewNopLogger(), db, auth.DefaultTxDecoder(cdc), bopts...)
	bapp.SetAppVersion(AppVersion)
	a := &App{BaseApp: bapp, Cdc: cdc, DB: db, Opts: o}
	a.KeyMain = sdk.NewKVStoreKey(baseapp.MainStoreKey)
	a.KeyAuth = sdk.NewKVStoreKey(auth.StoreKey)
	a.KeyPos = sdk.NewKVStoreKey(posTypes.StoreKey)

	authSub := sdk.NewSubspace(auth.DefaultParamspace)
	posSub := sdk.NewSubspace(posTypes.ModuleName)
	a.AK = auth.NewKeeper(cdc, a.KeyAuth, authSub, MaccPerms)
	a.PK = posKeeper.NewKeeper(cdc, a.KeyPos, a.AK, posSub, sdk.CodespaceType(posTypes.ModuleName))
	a.GK = govKeeper.NewKeeper(cdc, sdk.ParamsKey, sdk.ParamsTKey, govTypes.DefaultCodespace, a.AK, authSub, posSub)
	a.Ext = &ExtModule{pk: a.PK, keyPos: a.KeyPos}

	posMod := posModule{AppModule: pos.NewAppModule(a.PK, a.AK), k: a.PK, ak: a.AK, custom: o.CustomPos}
	a.MM = module.NewManager(
		auth.NewAppModule(a.AK),
		posMod,
		gov.NewAppModule(a.GK),
		a.Ext,
	)
	if o.PosFirst {
		a.MM.SetOrderInitGenesis(posTypes.ModuleName, auth.ModuleName, govTypes.ModuleName, ExtName)
	} else {
		a.MM.SetOrderInitGenesis(auth.ModuleName, posTypes.ModuleName, govTypes.ModuleName, ExtName)
	}
	a.MM.SetOrderBeginBlockers(posTypes.ModuleName, govTypes.ModuleName, ExtName)
	a.MM.SetOrderEndBlockers(posTypes.ModuleName, govTypes.ModuleName, ExtName)
	a.MM.RegisterRoutes(bapp.Router(), bapp.QueryRouter())

	bapp.SetInitChainer(func(ctx sdk.Ctx, req abci.RequestInitChain) abci.ResponseInitChain {
		var gs map[string]json.RawMessage
		if err := json.Unmarshal(req.AppStateBytes, &gs); err != nil {
			panic(err)
		}
		return a.MM.InitGenesis(ctx, gs)
	})
	bapp.SetBeginBlocker(func(ctx sdk.Ctx, req abci.RequestBeginBlock) abci.ResponseBeginBlock {
		return a.MM.BeginBlock(ctx, req)
	})
	bapp.SetEndBlocker(func(ctx sdk.Ctx, req abci.RequestEndBlock) abci.ResponseEndBlock {
		return a.MM.EndBlock(ctx, req)
	})
	bapp.SetAnteHandler(auth.NewAnteHandler(a.AK))
	if !o.NoAnteNode {
		bapp.SetTendermintNode(fakeNode(o.RPCAddr))
	}
	if o.Tracer != nil {
		bapp.SetCommitMultiStoreTracer(o.Tracer)
	}
	bapp.MountStores(a.KeyMain, a.KeyAuth, a.KeyPos, sdk.ParamsKey, sdk.ParamsTKey)
	if err := bapp.LoadLatestVersion(a.KeyMain); err != nil {
		return nil, err
	}
	return a, nil
}

// posModule lets configuration sweeps keep their genesis params: the shipped AppModule.InitGenesis
// overwrites them with DefaultParams(); pos.InitGenesis is the exported function it wraps.
type posModule struct {
	pos.AppModule
	k      posKeeper.Keeper
	ak     auth.Keeper
	custom bool
}

func (m posModule) InitGenesis(ctx sdk.Ctx, data json.RawMessage) []abci.ValidatorUpdate {
	if !m.custom || data == nil {
		return m.AppModule.InitGenesis(ctx, data)
	}
	var gs posTypes.GenesisState
	posTypes.ModuleCdc.MustUnmarshalJSON(data, &gs)
	return pos.InitGenesis(ctx, m.k, m.ak, gs)
}

// ---------------------------------------------------------------------------------------------
// ext: a stand-in for a downstream module that queues awards and burns through the exported API.

const ExtName = "ext"

type ExtAction struct {
	Kind     string `json:"kind"`  // "award" | "burn"
	Phase    string `json:"phase"` // "begin" | "end"
	Addr     []byte `json:"addr"`
	Amount   int64  `json:"amount,omitempty"`
	Severity string `json:"severity,omitempty"` // sdk.Dec string
}

type ExtModule struct {
	pk      posKeeper.Keeper
	keyPos  sdk.StoreKey
	Pending []ExtAction
	// BurnRoute counts how burns were queued: through the API, or seeded after the API panicked.
	BurnViaAPI, BurnSeeded, BurnSkipped int
}

var _ module.AppModule = (*ExtModule)(nil)

func (*ExtModule) Name() string                                  { return ExtName }
func (*ExtModule) RegisterCodec(*codec.Codec)                    {}
func (*ExtModule) DefaultGenesis() json.RawMessage               { return nil }
func (*ExtModule) ValidateGenesis(json.RawMessage) error         { return nil }
func (*ExtModule) RegisterInvariants(sdk.InvariantRegistry)      {}
func (*ExtModule) Route() string                                 { return "" }
func (*ExtModule) NewHandler() sdk.Handler                       { return nil }
func (*ExtModule) QuerierRoute() string                          { return "" }
func (*ExtModule) NewQuerierHandler() sdk.Querier                { return nil }
func (*ExtModule) ExportGenesis(sdk.Ctx) json.RawMessage         { return nil }
func (*ExtModule) InitGenesis(sdk.Ctx, json.RawMessage) []abci.ValidatorUpdate {
	return nil
}

func (e *ExtModule) run(ctx sdk.Ctx, phase string) {
	var rest []ExtAction
	for _, a := range e.Pending {
		if a.Phase != phase {
			rest = append(rest, a)
			continue
		}
		switch a.Kind {
		case "award":
			e.pk.AwardCoinsTo(ctx, sdk.NewInt(a.Amount), sdk.Address(a.Addr))
		case "burn":
			sev, err := sdk.NewDecFromStr(a.Severity)
			if err != nil {
				panic(fmt.Sprintf("harness: bad severity %q", a.Severity))
			}
			e.burn(ctx, sdk.Address(a.Addr), sev)
		}
	}
	e.Pending = rest
}

// burn calls the exported API the way a handler would (inside a recover); when the API panics on the
// first burn for an address (zero-value Dec), the entry is seeded directly with the documented encoding.
func (e *ExtModule) burn(ctx sdk.Ctx, addr sdk.Address, sev sdk.Dec) {
	// a downstream module burns validators it knows to exist (queueing a burn for an address without a
	// validator record makes the next BeginBlock panic; no listed property speaks about that)
	if e.pk.Validator(ctx, addr) == nil {
		e.BurnSkipped++
		return
	}
	ok := func() (ok bool) {
		defer func() {
			if r := recover(); r != nil {
				ok = false
			}
		}()
		e.pk.BurnValidator(ctx, addr, sev)
		return true
	}()
	if ok {
		e.BurnViaAPI++
		return
	}
	e.BurnSeeded++
	st := ctx.KVStore(e.keyPos)
	key := posTypes.KeyForValidatorBurn(addr)
	cur := sdk.ZeroDec()
	if bz := st.Get(key); bz != nil {
		amino.MustUnmarshalBinaryBare(bz, &cur)
	}
	st.Set(key, amino.MustMarshalBinaryBare(cur.Add(sev)))
}

func (e *ExtModule) BeginBlock(ctx sdk.Ctx, _ abci.RequestBeginBlock) { e.run(ctx, "begin") }
func (e *ExtModule) EndBlock(ctx sdk.Ctx, _ abci.RequestEndBlock) []abci.ValidatorUpdate {
	e.run(ctx, "end")
	return nil
}
