package sim

import (
	"io/ioutil"
	"encoding/hex"
	"encoding/json"
	"fmt"
	"os"
	"runtime/debug"
	"strings"
	"time"

	abci "github.com/tendermint/tendermint/abci/types"
	tmtypes "github.com/tendermint/tendermint/types"
	dbm "github.com/tendermint/tm-db"

	"github.com/pokt-network/posmint/store"
	stypes "github.com/pokt-network/posmint/store/types"
	authTypes "github.com/pokt-network/posmint/x/auth/types"
)

// ---- request log (replayable) -------------------------------------------------------------------

// LogEntry is one ABCI request as issued by the driver; a list of them is a replayable history.
type LogEntry struct {
	Seq    int             `json:"seq"`
	Kind   string          `json:"kind"` // init begin deliver end commit check query info restart
	Height int64           `json:"h,omitempty"`
	Init   *InitSpec       `json:"init,omitempty"`
	Begin  *BeginSpec      `json:"begin,omitempty"`
	Tx     string          `json:"tx,omitempty"` // hex
	Label  string          `json:"label,omitempty"`
	Query  *QuerySpec      `json:"query,omitempty"`
	Ext    []ExtAction     `json:"ext,omitempty"` // ext actions handed to the ext module before this call
	Note   json.RawMessage `json:"note,omitempty"`
}

type InitSpec struct {
	AppState  json.RawMessage `json:"app_state"`
	CustomPos bool            `json:"custom_pos"`
	PosFirst  bool            `json:"pos_first,omitempty"`
	Defect    string          `json:"defect,omitempty"` // harness ground truth: the genesis is deliberately inconsistent
	Pruning   *[2]int64       `json:"pruning,omitempty"` // keepRecent, keepEvery; nil = zero value of the multistore
	MaxGas    int64           `json:"max_gas"`
	// SecpValidators: the consensus parameters also allow secp256k1 validator keys
	SecpValidators bool `json:"secp_validators,omitempty"`
	// Trace: the application runs with a store tracer set (writes go to a discarded sink)
	Trace bool `json:"trace,omitempty"`
}

type VoteSpec struct {
	Addr   string `json:"a"`
	Power  int64  `json:"p"`
	Signed bool   `json:"s"`
}
type EvidSpec struct {
	Addr   string `json:"a"`
	Power  int64  `json:"p"`
	Height int64  `json:"h"`
	Time   int64  `json:"t"` // unix seconds
	TimeNs int64  `json:"tn,omitempty"`
	Total  int64  `json:"tp"`
}

// At is the evidence timestamp.
func (e EvidSpec) At() time.Time { return time.Unix(e.Time, e.TimeNs).UTC() }
type BeginSpec struct {
	Height   int64      `json:"h"`
	Time     int64      `json:"t"` // unix seconds
	TimeNs   int64      `json:"tn,omitempty"`
	Proposer string     `json:"prop"`
	Votes    []VoteSpec `json:"votes"`
	Evidence []EvidSpec `json:"ev,omitempty"`
}
type QuerySpec struct {
	Path   string `json:"path"`
	Data   string `json:"data,omitempty"` // hex
	Height int64  `json:"height"`
	Prove  bool   `json:"prove,omitempty"`
}

func (b *BeginSpec) Request() abci.RequestBeginBlock {
	prop, _ := hex.DecodeString(b.Proposer)
	req := abci.RequestBeginBlock{
		Header: abci.Header{ChainID: ChainID, Height: b.Height, Time: time.Unix(b.Time, b.TimeNs).UTC(), ProposerAddress: prop},
	}
	for _, v := range b.Votes {
		ad, _ := hex.DecodeString(v.Addr)
		req.LastCommitInfo.Votes = append(req.LastCommitInfo.Votes, abci.VoteInfo{
			Validator: abci.Validator{Address: ad, Power: v.Power}, SignedLastBlock: v.Signed})
	}
	for _, e := range b.Evidence {
		ad, _ := hex.DecodeString(e.Addr)
		req.ByzantineValidators = append(req.ByzantineValidators, abci.Evidence{
			Type: tmtypes.ABCIEvidenceTypeDuplicateVote, Validator: abci.Validator{Address: ad, Power: e.Power},
			Height: e.Height, Time: e.At(), TotalVotingPower: e.Total})
	}
	return req
}

// ---- call records handed to monitors ----------------------------------------------------------

type Snap struct {
	Raw  Raw
	View *View
}

type TxMeta struct {
	Decoded bool
	Tx      authTypes.StdTx
	MsgType string
	Signer  string // hex of msg.GetSigner()
	Fee     int64  // amount of stake denom in tx.Fee
	Hash    []byte
	Label   string
	Spec    *TxSpec // harness ground truth when the tx was built by the harness
}

type Call struct {
	Entry LogEntry
	Kind  string
	H     int64 // height of the block under construction (reads: last committed height)
	Time  time.Time

	Begin abci.RequestBeginBlock
	Tx    []byte
	Meta  *TxMeta
	QReq  abci.RequestQuery

	Panic string // a panic escaped the ABCI call (process death in production)
	Stack string

	ResInit    abci.ResponseInitChain
	ResBegin   abci.ResponseBeginBlock
	ResDeliver abci.ResponseDeliverTx
	ResCheck   abci.ResponseCheckTx
	ResEnd     abci.ResponseEndBlock
	ResCommit  abci.ResponseCommit
	ResQuery   abci.ResponseQuery
	ResInfo    abci.ResponseInfo

	// ApplyErr: Tendermint's validator-set code refused the updates of this InitChain/EndBlock.
	ApplyErr error

	Pre, Post *Snap
	// Reopened is set when the call killed the instance: Post is the state of a fresh instance over the same DB.
	Reopened bool
}

type Monitor interface {
	OnCall(env *Env, c *Call)
}

type Violation struct {
	Prop string `json:"property"`
	Sig  string `json:"signature"` // classification independent of seed/history
	Msg  string `json:"message"`
	Seq  int    `json:"seq"`
	H    int64  `json:"height"`
}

// ---- Env ----------------------------------------------------------------------------------------

type Env struct {
	Idx      *TxIndex
	Chain    *Chain
	DB       dbm.DB
	A        *App
	Opts     Opts
	Init     *InitSpec
	Log      []LogEntry
	LogFile  *os.File
	// DecodeNotes: first few store records the snapshot decoder could not interpret (makes a verdict inconclusive)
	DecodeNotes []string
	Monitors []Monitor
	Viol     []Violation
	Stats    map[string]int64

	last      *Snap
	seq       int
	Dead      bool // instance died in a consensus call; history over
	DeathNote string
	H         int64 // last committed height
	InBlock   bool
	blockTxs  [][]byte
	blockCodes []uint32 // DeliverTx result codes of blockTxs (the indexer stores the result with the transaction)
	CurBegin  *BeginSpec
	CurTime   time.Time
	NoSnap    bool // skip snapshots (pure speed runs)
	NoChain   bool // do not feed validator updates to the Tendermint model (replays that start mid-chain)
}

func NewEnv(idx *TxIndex) *Env {
	return &Env{Idx: idx, Stats: map[string]int64{}, Chain: NewChain()}
}

func (e *Env) Violate(prop, sig, msg string, c *Call) {
	v := Violation{Prop: prop, Sig: sig, Msg: msg}
	if c != nil {
		v.Seq, v.H = c.Entry.Seq, c.H
	}
	// de-duplicate identical signatures within one history
	for _, x := range e.Viol {
		if x.Prop == prop && x.Sig == sig {
			e.Stats["dupviol"]++
			return
		}
	}
	e.Viol = append(e.Viol, v)
}

func (e *Env) Count(k string) { e.Stats[k]++ }

func (e *Env) snap() *Snap {
	if e.NoSnap {
		return &Snap{}
	}
	r := e.A.DumpRaw()
	return &Snap{Raw: r, View: e.A.Decode(r)}
}

func (e *Env) Last() *Snap {
	if e.last == nil {
		e.last = e.snap()
	}
	return e.last
}

func (e *Env) logEntry(le *LogEntry) {
	le.Seq = e.seq
	e.seq++
	e.Log = append(e.Log, *le)
	if e.LogFile != nil {
		bz, _ := json.Marshal(le)
		e.LogFile.Write(append(bz, '\n'))
	}
}

func pruningOf(p *[2]int64) *store.PruningOptions {
	if p == nil {
		return nil
	}
	o := stypes.NewPruningOptions(p[0], p[1])
	return &o
}

// guarded runs fn and converts an escaping panic into (msg, stack).
func guarded(fn func()) (msg, stack string) {
	defer func() {
		if r := recover(); r != nil {
			msg = strings.Join(strings.Fields(fmt.Sprintf("%v", r)), " ")
			if msg == "" {
				msg = "panic"
			}
			stack = string(debug.Stack())
		}
	}()
	fn()
	return
}

func (e *Env) newApp() (*App, error) {
	o := e.Opts
	o.RPCAddr = e.Idx.Addr
	o.CustomPos = e.Init.CustomPos
	o.PosFirst = e.Init.PosFirst
	o.Pruning = pruningOf(e.Init.Pruning)
	if e.Init.Trace && o.Tracer == nil {
		o.Tracer = ioutil.Discard
	}
	return NewApp(e.DB, o)
}

func (e *Env) finish(c *Call) {
	// A panic escaping a consensus-connection or mempool call kills a real node. Query/Info panics are
	// caught by Tendermint's RPC server (RecoverAndLogHandler), so they are responses, not deaths.
	if c.Panic != "" && (c.Kind == "init" || c.Kind == "begin" || c.Kind == "end" || c.Kind == "commit" ||
		c.Kind == "deliver" || c.Kind == "check") {
		// process death: discard the instance, reopen from the database
		e.Dead = true
		e.DeathNote = fmt.Sprintf("%s@%d: %s", c.Kind, c.H, firstLine(c.Panic))
		a, err := e.newApp()
		if err == nil {
			e.A = a
			c.Reopened = true
			e.last = nil
			c.Post = e.snap()
		} else {
			c.Post = c.Pre
			e.DeathNote += " / reopen failed: " + err.Error()
		}
	} else {
		c.Post = e.snap()
	}
	e.last = c.Post
	if c.Post != nil && c.Post.View != nil && len(c.Post.View.DecodeErr) > 0 {
		// records the harness cannot interpret: whatever the monitors conclude about this state is incomplete
		e.Stats["snapshot.decode_errors"] += int64(len(c.Post.View.DecodeErr))
		if len(e.DecodeNotes) < 3 {
			e.DecodeNotes = append(e.DecodeNotes, fmt.Sprintf("after %s@%d: %s", c.Kind, c.H, c.Post.View.DecodeErr[0]))
		}
	}
	for _, m := range e.Monitors {
		m.OnCall(e, c)
	}
}

func firstLine(s string) string {
	if i := strings.IndexByte(s, '\n'); i >= 0 {
		return s[:i]
	}
	return s
}

// Reopen builds a fresh application instance over the environment's database (what a restarted process does).
func (e *Env) Reopen() (*App, error) { return e.newApp() }

// InitChain creates the database-backed instance and runs InitChain.
func (e *Env) InitChain(db dbm.DB, spec *InitSpec) *Call {
	e.DB, e.Init = db, spec
	a, err := e.newApp()
	if err != nil {
		panic(err)
	}
	e.A = a
	le := LogEntry{Kind: "init", Init: spec}
	e.logEntry(&le)
	c := &Call{Entry: le, Kind: "init", H: 0, Time: GenesisTime}
	c.Pre = e.snap()
	req := abci.RequestInitChain{
		Time: GenesisTime, ChainId: ChainID, AppStateBytes: spec.AppState,
		ConsensusParams: &abci.ConsensusParams{
			Block:     &abci.BlockParams{MaxBytes: 1 << 22, MaxGas: spec.MaxGas},
			Evidence:  &abci.EvidenceParams{MaxAge: 100000},
			Validator: &abci.ValidatorParams{PubKeyTypes: []string{tmtypes.ABCIPubKeyTypeEd25519}},
		},
	}
	if spec.SecpValidators {
		req.ConsensusParams.Validator.PubKeyTypes = append(req.ConsensusParams.Validator.PubKeyTypes, tmtypes.ABCIPubKeyTypeSecp256k1)
		e.Chain.KeyTypes = []string{tmtypes.ABCIPubKeyTypeEd25519, tmtypes.ABCIPubKeyTypeSecp256k1}
	}
	c.Panic, c.Stack = guarded(func() { c.ResInit = e.A.InitChain(req) })
	if c.Panic == "" && !e.NoChain {
		c.ApplyErr = e.Chain.Init(c.ResInit.Validators)
	}
	e.Chain.Times[0] = GenesisTime
	e.finish(c)
	if c.ApplyErr != nil {
		e.Dead, e.DeathNote = true, "tendermint rejected genesis validators: "+c.ApplyErr.Error()
	}
	return c
}

func (e *Env) BeginBlock(b *BeginSpec, ext []ExtAction) *Call {
	le := LogEntry{Kind: "begin", Height: b.Height, Begin: b, Ext: ext}
	e.logEntry(&le)
	c := &Call{Entry: le, Kind: "begin", H: b.Height, Begin: b.Request()}
	c.Time = c.Begin.Header.Time
	c.Pre = e.Last()
	e.A.Ext.Pending = append(e.A.Ext.Pending, ext...)
	e.CurBegin, e.CurTime, e.InBlock, e.blockTxs, e.blockCodes = b, c.Time, true, nil, nil
	e.Chain.Times[b.Height] = c.Time
	c.Panic, c.Stack = guarded(func() { c.ResBegin = e.A.BeginBlock(c.Begin) })
	e.finish(c)
	return c
}

// DecodeMeta decodes tx bytes with the application's codec to learn the declared signer / fee.
func (e *Env) DecodeMeta(bz []byte, label string, spec *TxSpec) *TxMeta {
	m := &TxMeta{Label: label, Spec: spec, Hash: tmtypes.Tx(bz).Hash()}
	func() {
		defer func() { recover() }()
		var tx authTypes.StdTx
		if len(bz) == 0 {
			return
		}
		if err := e.A.Cdc.UnmarshalBinaryLengthPrefixed(bz, &tx); err != nil {
			return
		}
		if tx.Msg == nil {
			return
		}
		m.Tx = tx
		m.MsgType = tx.Msg.Type()
		m.Signer = hex.EncodeToString(tx.Msg.GetSigner())
		m.Fee = tx.Fee.AmountOf(Denom).Int64()
		m.Decoded = true
	}()
	return m
}

func (e *Env) DeliverTx(bz []byte, label string, spec *TxSpec) *Call {
	le := LogEntry{Kind: "deliver", Height: e.H + 1, Tx: hex.EncodeToString(bz), Label: label}
	e.logEntry(&le)
	c := &Call{Entry: le, Kind: "deliver", H: e.H + 1, Time: e.CurTime, Tx: bz}
	c.Meta = e.DecodeMeta(bz, label, spec)
	c.Pre = e.Last()
	c.Panic, c.Stack = guarded(func() { c.ResDeliver = e.A.DeliverTx(abci.RequestDeliverTx{Tx: bz}) })
	e.blockTxs = append(e.blockTxs, bz)
	e.blockCodes = append(e.blockCodes, c.ResDeliver.Code)
	e.finish(c)
	return c
}

func (e *Env) CheckTx(bz []byte, label string, spec *TxSpec) *Call {
	le := LogEntry{Kind: "check", Height: e.H, Tx: hex.EncodeToString(bz), Label: label}
	e.logEntry(&le)
	c := &Call{Entry: le, Kind: "check", H: e.H, Time: e.CurTime, Tx: bz}
	c.Meta = e.DecodeMeta(bz, label, spec)
	c.Pre = e.Last()
	req := abci.RequestCheckTx{Tx: bz}
	if strings.HasPrefix(label, "recheck") {
		req.Type = abci.CheckTxType_Recheck // the mempool re-checking after a block; the label carries it through replays
	}
	c.Panic, c.Stack = guarded(func() { c.ResCheck = e.A.CheckTx(req) })
	e.finish(c)
	return c
}

func (e *Env) EndBlock(ext []ExtAction) *Call {
	le := LogEntry{Kind: "end", Height: e.H + 1, Ext: ext}
	e.logEntry(&le)
	c := &Call{Entry: le, Kind: "end", H: e.H + 1, Time: e.CurTime}
	c.Pre = e.Last()
	e.A.Ext.Pending = append(e.A.Ext.Pending, ext...)
	c.Panic, c.Stack = guarded(func() { c.ResEnd = e.A.EndBlock(abci.RequestEndBlock{Height: e.H + 1}) })
	if c.Panic == "" && !e.NoChain {
		c.ApplyErr = e.Chain.Apply(e.H+1, c.ResEnd.ValidatorUpdates)
	}
	e.finish(c)
	if c.ApplyErr != nil && !e.Dead {
		e.Dead, e.DeathNote = true, "tendermint rejected validator updates: "+c.ApplyErr.Error()
	}
	return c
}

func (e *Env) Commit() *Call {
	le := LogEntry{Kind: "commit", Height: e.H + 1}
	e.logEntry(&le)
	c := &Call{Entry: le, Kind: "commit", H: e.H + 1, Time: e.CurTime}
	c.Pre = e.Last()
	c.Panic, c.Stack = guarded(func() { c.ResCommit = e.A.Commit() })
	if c.Panic == "" {
		e.H++
		e.InBlock = false
		for i, tx := range e.blockTxs {
			code := uint32(0)
			if i < len(e.blockCodes) {
				code = e.blockCodes[i]
			}
			e.Idx.AddResult(tmtypes.Tx(tx).Hash(), e.H, code)
		}
		e.blockTxs, e.blockCodes = nil, nil
	}
	e.finish(c)
	return c
}

func (e *Env) Query(q *QuerySpec) *Call {
	le := LogEntry{Kind: "query", Height: e.H, Query: q}
	e.logEntry(&le)
	data, _ := hex.DecodeString(q.Data)
	c := &Call{Entry: le, Kind: "query", H: e.H, Time: e.CurTime,
		QReq: abci.RequestQuery{Path: q.Path, Data: data, Height: q.Height, Prove: q.Prove}}
	c.Pre = e.Last()
	c.Panic, c.Stack = guarded(func() { c.ResQuery = e.A.Query(c.QReq) })
	e.finish(c)
	return c
}

func (e *Env) Info() *Call {
	le := LogEntry{Kind: "info", Height: e.H}
	e.logEntry(&le)
	c := &Call{Entry: le, Kind: "info", H: e.H, Time: e.CurTime}
	c.Pre = e.Last()
	c.Panic, c.Stack = guarded(func() { c.ResInfo = e.A.Info(abci.RequestInfo{}) })
	e.finish(c)
	return c
}

// Restart discards the instance after a Commit and reopens it from the database (cold caches).
func (e *Env) Restart() error {
	if e.InBlock {
		return fmt.Errorf("restart inside a block")
	}
	le := LogEntry{Kind: "restart", Height: e.H}
	e.logEntry(&le)
	pend := e.A.Ext.Pending
	a, err := e.newApp()
	if err != nil {
		return err
	}
	a.Ext.Pending = pend
	e.A = a
	e.last = nil
	e.Count("restarts")
	return nil
}

// Replay re-issues a recorded history against a fresh database.
func (e *Env) Replay(db dbm.DB, log []LogEntry) {
	for _, le := range log {
		if e.Dead {
			return
		}
		switch le.Kind {
		case "init":
			e.InitChain(db, le.Init)
		case "begin":
			e.BeginBlock(le.Begin, le.Ext)
		case "deliver":
			bz, _ := hex.DecodeString(le.Tx)
			e.DeliverTx(bz, le.Label, nil)
		case "check":
			bz, _ := hex.DecodeString(le.Tx)
			e.CheckTx(bz, le.Label, nil)
		case "end":
			e.EndBlock(le.Ext)
		case "commit":
			e.Commit()
		case "query":
			e.Query(le.Query)
		case "info":
			e.Info()
		case "restart":
			e.Restart()
		}
	}
}
