package sim

import (
	"crypto/sha256"
	"encoding/binary"
	"encoding/hex"
	"fmt"

	stded "crypto/ed25519"

	tmsecp "github.com/tendermint/tendermint/crypto/secp256k1"

	"github.com/pokt-network/posmint/crypto"
	sdk "github.com/pokt-network/posmint/types"
)

// Rand is a small splittable PRNG (splitmix64). All harness choices come from it.
type Rand struct{ s uint64 }

func NewRand(seed uint64) *Rand { return &Rand{s: seed*0x9E3779B97F4A7C15 + 0x1234567} }

func (r *Rand) U64() uint64 {
	r.s += 0x9E3779B97F4A7C15
	z := r.s
	z = (z ^ (z >> 30)) * 0xBF58476D1CE4E5B9
	z = (z ^ (z >> 27)) * 0x94D049BB133111EB
	return z ^ (z >> 31)
}
func (r *Rand) Intn(n int) int {
	if n <= 0 {
		return 0
	}
	return int(r.U64() % uint64(n))
}
func (r *Rand) Int63n(n int64) int64 {
	if n <= 0 {
		return 0
	}
	return int64(r.U64() % uint64(n))
}
func (r *Rand) Bool() bool       { return r.U64()&1 == 1 }
func (r *Rand) Chance(p int) bool { return r.Intn(100) < p } // p percent
func (r *Rand) Split(tag uint64) *Rand {
	return NewRand(r.U64() ^ (tag * 0xD6E8FEB86659FD93))
}
func (r *Rand) Bytes(n int) []byte {
	b := make([]byte, n)
	for i := 0; i < n; i += 8 {
		var t [8]byte
		binary.LittleEndian.PutUint64(t[:], r.U64())
		copy(b[i:], t[:])
	}
	return b
}
func (r *Rand) PickI64(xs ...int64) int64 { return xs[r.Intn(len(xs))] }

// Actor is a key-holding participant. Multi != nil for multisig actors.
type Actor struct {
	Name  string
	Kind  string // "ed25519" | "secp256k1" | "multisig"
	Priv  crypto.PrivateKey
	Pub   crypto.PublicKey
	Addr  sdk.Address
	Multi []*Actor
}

func (a *Actor) AddrHex() string { return hex.EncodeToString(a.Addr) }

func seedBytes(seed uint64, tag string, i int) []byte {
	h := sha256.Sum256([]byte(fmt.Sprintf("verif/%d/%s/%d", seed, tag, i)))
	return h[:]
}

func NewEdActor(seed uint64, i int) *Actor {
	sk := stded.NewKeyFromSeed(seedBytes(seed, "ed", i))
	var p crypto.Ed25519PrivateKey
	copy(p[:], sk)
	pub := p.PublicKey()
	return &Actor{Name: fmt.Sprintf("ed%d", i), Kind: "ed25519", Priv: p, Pub: pub, Addr: sdk.Address(pub.Address())}
}

// NewEdActorWithLastByte searches the deterministic key sequence for a key whose address ends in the given byte
// (keys whose derived store prefixes end in 0xFF or 0x00 exist in any real validator population: 1 in 256).
func NewEdActorWithLastByte(seed uint64, i int, last byte) *Actor {
	for k := 0; k < 20000; k++ {
		a := NewEdActor(seed, 1000000+i*100000+k)
		if a.Addr[len(a.Addr)-1] == last {
			a.Name = fmt.Sprintf("ed%d", i)
			return a
		}
	}
	return NewEdActor(seed, i)
}

func NewSecpActor(seed uint64, i int) *Actor {
	tk := tmsecp.GenPrivKeySecp256k1(seedBytes(seed, "secp", i))
	var p crypto.Secp256k1PrivateKey
	copy(p[:], tk[:])
	pub := p.PublicKey()
	return &Actor{Name: fmt.Sprintf("secp%d", i), Kind: "secp256k1", Priv: p, Pub: pub, Addr: sdk.Address(pub.Address())}
}

func NewMultiActor(name string, subs ...*Actor) *Actor {
	var keys []crypto.PublicKey
	for _, s := range subs {
		keys = append(keys, s.Pub)
	}
	pk := crypto.PublicKeyMultiSignature{PublicKeys: keys}
	return &Actor{Name: name, Kind: "multisig", Pub: pk, Addr: sdk.Address(pk.Address()), Multi: subs}
}

// Sign produces the signature bytes this actor would produce over msg (recursively for multisig).
func (a *Actor) Sign(msg []byte) []byte {
	if a.Multi == nil {
		s, err := a.Priv.Sign(msg)
		if err != nil {
			panic(err)
		}
		return s
	}
	ms := crypto.MultiSignature{}
	for _, s := range a.Multi {
		ms.Sigs = append(ms.Sigs, s.Sign(msg))
	}
	return ms.Marshal()
}
