package sim

import (
	"encoding/json"
	"fmt"
	"math/big"
	"sort"
	"time"

	"github.com/pokt-network/posmint/crypto"
	sdk "github.com/pokt-network/posmint/types"
	authTypes "github.com/pokt-network/posmint/x/auth/types"
	govTypes "github.com/pokt-network/posmint/x/gov/types"
	posTypes "github.com/pokt-network/posmint/x/pos/types"
)

func (w *World) pickWeighted() string {
	keys := make([]string, 0, len(w.P.W))
	tot := 0
	for k, v := range w.P.W {
		if v > 0 {
			keys = append(keys, k)
			tot += v
		}
	}
	sort.Strings(keys)
	if tot == 0 {
		return "send"
	}
	x := w.R.Intn(tot)
	for _, k := range keys {
		x -= w.P.W[k]
		if x < 0 {
			return k
		}
	}
	return keys[0]
}

func sortedVals(v *View) []*ValView {
	var out []*ValView
	if v == nil { // instances run without snapshots (Env.NoSnap) have no view
		return nil
	}
	for _, x := range v.Vals {
		out = append(out, x)
	}
	sort.Slice(out, func(i, j int) bool { return out[i].Addr < out[j].Addr })
	return out
}

// honest fills fee / entropy / signer for a message sent by actor a.
func (w *World) honest(a *Actor, msg sdk.Msg, cp CurParams) *TxSpec {
	s := &TxSpec{Msg: msg, Fee: cp.RequiredFee(msg.Type()), Entropy: w.nextEntropy(), SignedBy: a}
	if need := cp.RequiredFeeBig(msg.Type()); !need.IsInt64() || need.Int64() > 1<<55 {
		// nobody can pay this: offer what a careless implementation might accept instead (the base fee, the product
		// wrapped to 64 bits, small multiples)
		wrapped := int64(uint64(BaseFee(msg.Type())) * uint64(new(big.Int).Quo(need, big.NewInt(BaseFee(msg.Type()))).Uint64()))
		s.Fee = w.R.PickI64(BaseFee(msg.Type()), wrapped, wrapped+1, 10*BaseFee(msg.Type()), 1000000)
		if s.Fee <= 0 {
			s.Fee = BaseFee(msg.Type())
		}
	} else if w.R.Chance(20) {
		s.Fee += w.R.Int63n(5000)
	}
	// key supplied in the signature, or looked up from state when the account has one stored
	acc := w.View().Accounts[a.AddrHex()]
	if acc == nil || !acc.HasPub || w.R.Chance(60) {
		s.PubInSig = a.Pub
	}
	if w.R.Chance(10) {
		s.Memo = "memo-" + fmt.Sprint(w.R.Intn(1000))
	}
	return s
}

func (w *World) buildStake(v *View, cp CurParams) (*TxSpec, string) {
	// candidates: ed actors; prefer those not currently staked
	a := w.Eds[w.R.Intn(len(w.Eds))]
	for i := 0; i < 4; i++ {
		val, ok := v.Vals[a.AddrHex()]
		if !ok || val.Status == 0 {
			break
		}
		a = w.Eds[w.R.Intn(len(w.Eds))]
	}
	label := "stake"
	if w.R.Chance(8) && len(w.Secps) > 0 {
		a = w.Secps[w.R.Intn(len(w.Secps))] // unsupported consensus key type
		label = "stake-secp"
	}
	if a == w.Gov || a == w.DAOOwn {
		a = w.Eds[1%len(w.Eds)]
	}
	bal := v.Bal(a.AddrHex()).Int64()
	fee := cp.RequiredFee("stake_validator")
	var amt int64
	switch w.R.Intn(10) {
	case 0:
		amt = cp.Min - 1
	case 1:
		amt = cp.Min
	case 2:
		amt = cp.Min + 1
	case 3:
		amt = bal - fee // exactly the balance after the fee
	case 4:
		amt = bal - fee + 1
	case 5:
		amt = bal + 1
	case 6:
		amt = 1
	default:
		amt = cp.Min + w.R.Int63n(30*cp.Min+1)
		if amt > bal/2 && bal/2 > cp.Min {
			amt = cp.Min + w.R.Int63n(bal/2-cp.Min+1)
		}
	}
	if w.R.Chance(14) {
		// a stake from which a slash of a usual fraction lands exactly on the minimum (or one unit either side)
		f := []int64{500000, 100000, 10000, 333333, 50000}[w.R.Intn(5)] // burn per unit of power: fraction * 10^6
		for p := cp.Min / 1000000; p < cp.Min/1000000+400 && p > 0; p++ {
			if s := cp.Min + p*f; s/1000000 == p {
				amt = s + w.R.PickI64(0, 0, 0, -1, 1)
				break
			}
		}
	}
	if amt <= 0 {
		amt = 1
	}
	msg := posTypes.MsgStake{PubKey: a.Pub, Value: sdk.NewInt(amt)}
	if w.R.Chance(3) {
		msg.Value = hugeInt(w.R)
		label = "stake-huge"
	}
	if w.WhaleActor != nil && w.R.Chance(25) {
		// the whale can afford stakes whose consensus power does not fit an int64 (2^63 * 10^6 and beyond)
		a = w.WhaleActor
		x := new(big.Int).Lsh(big.NewInt(1), uint(62+w.R.Intn(27)))
		if w.R.Chance(25) {
			x = new(big.Int).Add(new(big.Int).Lsh(big.NewInt(1), 63), big.NewInt(w.R.PickI64(-2, -1, 0, 1)))
		}
		if w.R.Chance(30) {
			x = new(big.Int).Mul(new(big.Int).Lsh(big.NewInt(1), 63), big.NewInt(1000000))
			x.Add(x, big.NewInt(w.R.PickI64(-1000000, -1, 0, 1)))
		}
		msg = posTypes.MsgStake{PubKey: a.Pub, Value: sdk.NewIntFromBigInt(x)}
		label = "stake-whale"
	}
	return w.honest(a, msg, cp), label
}

func (w *World) buildUnstake(v *View, cp CurParams) (*TxSpec, string) {
	vals := sortedVals(v)
	var a *Actor
	if len(vals) > 0 && w.R.Chance(85) {
		// prefer staked validators, never the anchor
		for i := 0; i < 6; i++ {
			c := vals[w.R.Intn(len(vals))]
			if c.Addr == w.Anchor.AddrHex() {
				continue
			}
			a = w.ByAddr[c.Addr]
			if c.Status == 2 || w.R.Chance(20) {
				break
			}
		}
	}
	if a == nil {
		a = w.Eds[1+w.R.Intn(len(w.Eds)-1)]
	}
	if a == w.Anchor {
		a = w.Eds[1]
	}
	return w.honest(a, posTypes.MsgBeginUnstake{Address: a.Addr}, cp), "unstake"
}

func (w *World) buildUnjail(v *View, cp CurParams) (*TxSpec, string) {
	vals := sortedVals(v)
	var a *Actor
	// a jailed validator whose signing info says tombstoned although its jailed-until time has passed (a state that a
	// genesis file can carry) is the most interesting sender
	for _, c := range vals {
		if si := v.Sign[c.Addr]; c.Jailed && si != nil && si.Tombstoned && !si.JailedUntil.After(w.Now) && w.ByAddr[c.Addr] != nil && w.R.Chance(60) {
			return w.honest(w.ByAddr[c.Addr], posTypes.MsgUnjail{ValidatorAddr: w.ByAddr[c.Addr].Addr}, cp), "unjail-tombstoned-after-expiry"
		}
	}
	for i := 0; i < 8 && len(vals) > 0; i++ {
		c := vals[w.R.Intn(len(vals))]
		a = w.ByAddr[c.Addr]
		if c.Jailed || w.R.Chance(10) {
			break
		}
	}
	if a == nil {
		a = w.Eds[w.R.Intn(len(w.Eds))]
	}
	return w.honest(a, posTypes.MsgUnjail{ValidatorAddr: a.Addr}, cp), "unjail"
}

func (w *World) buildSend(v *View, cp CurParams) (*TxSpec, string) {
	a := w.All[w.R.Intn(len(w.All))]
	var to sdk.Address
	switch w.R.Intn(8) {
	case 0:
		to = ModuleAddress(posTypes.StakedPoolName)
	case 1:
		to = ModuleAddress([]string{"dao", "fee_collector", "pos"}[w.R.Intn(3)])
	case 2:
		to = w.Strangers[w.R.Intn(len(w.Strangers))]
	case 3:
		to = a.Addr
	default:
		to = w.All[w.R.Intn(len(w.All))].Addr
	}
	if w.R.Chance(4) {
		// recipients given as something else than a 20-byte address (a raw 32-byte key, a short string)
		to = sdk.Address(w.R.Bytes(40)[:[]int{32, 21, 5, 1}[w.R.Intn(4)]])
	}
	if w.R.Chance(3) && a.Multi == nil {
		// ... or an actor's own address with a byte appended / its last byte cut off: a different account
		o := w.All[w.R.Intn(len(w.All))]
		ext := append(append(sdk.Address{}, o.Addr...), byte(w.R.Intn(256)))
		if w.R.Chance(25) {
			ext = append(sdk.Address{}, o.Addr[:19]...)
		}
		to = ext
		w.Extended = append(w.Extended, ExtendedAddr{Owner: o, Addr: ext})
	}
	if len(w.Extended) > 0 && w.R.Chance(6) {
		// the holder of key K tries to spend from the account at K's address plus/minus a byte
		x := w.Extended[w.R.Intn(len(w.Extended))]
		amt := int64(1 + w.R.Intn(1000))
		s := w.honest(x.Owner, posTypes.MsgSend{FromAddress: x.Addr, ToAddress: x.Owner.Addr, Amount: sdk.NewInt(amt)}, cp)
		s.PubInSig = x.Owner.Pub
		return s, "send-from-lookalike-address"
	}
	if w.ForeignKey != nil && w.R.Chance(8) {
		// the key recorded in the account signs, without a key in the signature (or with it)
		s := w.honest(w.ForeignKey, posTypes.MsgSend{FromAddress: w.ForeignAcct, ToAddress: w.ForeignKey.Addr, Amount: sdk.NewInt(int64(1 + w.R.Intn(100000)))}, cp)
		s.PubInSig = nil
		if w.R.Chance(25) {
			s.PubInSig = w.ForeignKey.Pub
		}
		return s, "send-from-account-with-foreign-key"
	}
	bal := v.Bal(a.AddrHex()).Int64()
	fee := cp.RequiredFee("send")
	var amt int64
	switch w.R.Intn(8) {
	case 0:
		amt = 1
	case 1:
		amt = bal - fee
	case 2:
		amt = bal - fee + 1
	case 3:
		amt = bal
	case 4:
		amt = bal + 1 + w.R.Int63n(1000)
	default:
		amt = 1 + w.R.Int63n(bal/20+1)
	}
	if amt <= 0 {
		amt = 1
	}
	amount := sdk.NewInt(amt)
	if w.R.Chance(3) {
		amount = hugeInt(w.R) // beyond int64
	}
	return w.honest(a, posTypes.MsgSend{FromAddress: a.Addr, ToAddress: to, Amount: amount}, cp), "send"
}

// hugeInt draws an amount that does not fit an int64 (2^63 .. 2^255-1).
func hugeInt(r *Rand) sdk.Int {
	x := new(big.Int).Lsh(big.NewInt(1), uint(63+r.Intn(192)))
	if r.Bool() {
		x.Sub(x, big.NewInt(1))
	}
	return sdk.NewIntFromBigInt(x)
}

func jsonOf(x interface{}) []byte {
	bz, err := posTypes.ModuleCdc.MarshalJSON(x)
	if err != nil {
		panic(err)
	}
	return bz
}

// ParamValue draws a value for a parameter key: well-formed (within what the harness tolerates), or malformed.
func (w *World) ParamValue(key string, wellFormed bool) []byte {
	r := w.R
	if !wellFormed {
		if key == "pos/StakeDenom" {
			return []byte(`{"broken`) // any JSON string is a well-typed denomination; the owner may set it, the harness does not
		}
		switch r.Intn(5) {
		case 0:
			return []byte(`{"broken`)
		case 1:
			return []byte(`"not-a-number"`)
		case 2:
			return []byte(`[1,2,3]`)
		case 3:
			return []byte(``)
		default:
			return []byte(`{"x":1}`)
		}
	}
	switch key {
	case "auth/MaxMemoCharacters":
		return jsonOf(uint64(r.PickI64(0, 5, 75, 256, 1000)))
	case "auth/TxSigLimit":
		return jsonOf(uint64(r.PickI64(1, 2, 3, 4, 7, 8)))
	case "auth/FeeMultipliers":
		fm := authTypes.FeeMultipliers{Default: r.PickI64(1, 1, 2, 3)}
		if r.Chance(35) {
			// several entries, in no particular order (nothing sorts or validates a governance-set list)
			keys := []string{"send", "stake_validator", "unjail", "change_param", "dao_tranfer", "begin_unstaking_validator", "upgrade"}
			for i := len(keys) - 1; i > 0; i-- {
				j := r.Intn(i + 1)
				keys[i], keys[j] = keys[j], keys[i]
			}
			for _, k := range keys[:2+r.Intn(4)] {
				fm.FeeMultis = append(fm.FeeMultis, authTypes.FeeMultiplier{Key: k, Multiplier: r.PickI64(1, 2, 3, 5, 7)})
			}
			return jsonOf(fm)
		}
		if r.Bool() {
			fm.FeeMultis = []authTypes.FeeMultiplier{{Key: []string{"send", "stake_validator", "unjail", "change_param"}[r.Intn(4)], Multiplier: r.PickI64(1, 2, 5)}}
			if w.P.HugeFeeMultipliers && r.Chance(40) {
				// a multiplier whose product with the base fee does not fit 64 bits (only for one message type: the rest
				// of the chain keeps working); nobody can pay such a fee
				fm.FeeMultis = []authTypes.FeeMultiplier{{Key: []string{"send", "unjail"}[r.Intn(2)], Multiplier: r.PickI64(1844674407370956, 922337203685478, 9223372036854775807, 1<<62)}}
			}
		}
		return jsonOf(fm)
	case "pos/UnstakingTime":
		return jsonOf(time.Duration(r.PickI64(60, 600, 3600, 86400, 0, 1)) * time.Second)
	case "pos/MaxValidators":
		if r.Chance(12) {
			return jsonOf([]uint64{1 << 63, 1<<63 + 5, ^uint64(0), 1<<64 - 2}[r.Intn(4)]) // "no limit" spelled as a huge number
		}
		return jsonOf(uint64(r.PickI64(1, 2, 3, 5, 8, 100000, 65536, 65537, 1<<32, 1<<32+2)))
	case "pos/StakeDenom":
		return jsonOf(Denom)
	case "pos/StakeMinimum":
		if w.P.MinStakeRaises {
			cur := ParamsOf(w.View()).Min
			if cur > 1000000000000 {
				return jsonOf(cur)
			}
			return jsonOf(cur * r.PickI64(1, 2, 3, 20)) // only ever raised (a minimum below 10^6 lets power-0 validators stake)
		}
		return nil // kept constant within a history (DESIGN §7)
	case "pos/ProposerRewardPercentage":
		return jsonOf(int8(r.PickI64(0, 50, 90, 100)))
	case "pos/MaxEvidenceAge":
		return jsonOf(time.Duration(r.PickI64(60, 120, 3600)) * time.Second)
	case "pos/SignedBlocksWindow":
		if w.P.WindowChanges {
			// (only in histories set aside for it: there the window-content rules of C08 are suspended after the first change)
			cur := ParamsOf(w.View()).Window
			v := []int64{cur / 2, cur * 2, cur + 5, 10, 20}[r.Intn(5)]
			if v < 5 {
				v = 5
			}
			if v > 60 {
				v = 60
			}
			return jsonOf(v)
		}
		return nil // window parameters are constant within a history (DESIGN §7)
	case "pos/MinSignedPerWindow":
		return nil
	case "pos/DowntimeJailDuration":
		return jsonOf(time.Duration(r.PickI64(60, 600, 3600)) * time.Second)
	case "pos/SlashFractionDoubleSign":
		return jsonOf([]sdk.Dec{sdk.NewDecWithPrec(5, 2), sdk.ZeroDec(), sdk.OneDec(), sdk.NewDecWithPrec(1, 18)}[r.Intn(4)])
	case "pos/SlashFractionDowntime":
		return jsonOf([]sdk.Dec{sdk.NewDecWithPrec(1, 2), sdk.ZeroDec(), sdk.NewDecWithPrec(5, 1), sdk.NewDecWithPrec(1, 18)}[r.Intn(4)])
	case "gov/daoOwner":
		return jsonOf(w.All[r.Intn(len(w.All))].Addr)
	case "gov/upgrade":
		return jsonOf(govTypes.Upgrade{Height: 1000000 + int64(r.Intn(1000)), Version: "9.9." + fmt.Sprint(r.Intn(9))})
	case "gov/acl":
		return nil // handled by buildACL
	}
	return nil
}

func (w *World) currentOwner(v *View, key string) *Actor {
	var acl govTypes.ACL
	if s, ok := v.Params["gov/acl"]; ok {
		_ = govTypes.ModuleCdc.UnmarshalJSON([]byte(s), &acl)
	}
	o := acl.GetOwner(key)
	return w.ByAddr[hx(o)]
}

func (w *World) buildGovParam(v *View, cp CurParams) (*TxSpec, string) {
	key := AllParamKeys[w.R.Intn(len(AllParamKeys))]
	label := "govparam"
	if w.P.MinStakeRaises && w.R.Chance(35) {
		key = "pos/StakeMinimum"
	}
	if w.P.HugeFeeMultipliers && w.R.Chance(35) {
		key = "auth/FeeMultipliers"
	}
	if w.P.UnstakingTimeChanges && w.R.Chance(40) {
		key = "pos/UnstakingTime"
	}
	if w.P.WindowChanges && w.R.Chance(40) {
		key = "pos/SignedBlocksWindow"
	}
	if lc := w.lastACL; lc != nil && lc.h == w.Env.H+1 && w.R.Chance(60) && lc.key != "gov/acl" {
		// the ownership of this key was (tried to be) handed over earlier in this very block: the former and the new
		// owner use it right away
		if val := w.ParamValue(lc.key, true); val != nil {
			sender := lc.new
			label = "govparam-new-owner-same-block"
			if lc.old != nil && w.R.Bool() {
				sender, label = lc.old, "govparam-former-owner-same-block"
			}
			return w.honest(sender, govTypes.MsgChangeParam{FromAddress: sender.Addr, ParamKey: lc.key, ParamVal: val}, cp), label
		}
	}
	// parameters that lost their ACL entry are interesting targets: nobody may change them any more
	if w.R.Chance(30) {
		acl := aclKeys(v)
		for _, k := range AllParamKeys {
			if !acl[k] && w.ParamValue(k, true) != nil {
				key, label = k, "govparam-ownerless"
				break
			}
		}
	}
	owner := w.currentOwner(v, key)
	sender := owner
	if sender == nil || w.R.Chance(25) {
		sender = w.All[w.R.Intn(len(w.All))]
		label = "govparam-anyone"
	}
	val := w.ParamValue(key, !w.R.Chance(20))
	if val == nil {
		key = "pos/MaxValidators"
		val = w.ParamValue(key, true)
		if o := w.currentOwner(v, key); o != nil && label == "govparam" {
			sender = o
		}
	}
	if w.R.Chance(4) {
		key = "pos/NoSuchParam" // registered subspace, unknown key -> handler panics (recovered)
		label = "govparam-unknownkey"
	} else if w.R.Chance(3) {
		// a parameter space no module registered (nobody owns it: refused as unauthorised)
		key = []string{"bank/sendenabled", "nosuchspace/key", "/", "pos", ""}[w.R.Intn(5)]
		label = "govparam-unknownspace"
	}
	msg := govTypes.MsgChangeParam{FromAddress: sender.Addr, ParamKey: key, ParamVal: val}
	return w.honest(sender, msg, cp), label
}

func aclKeys(v *View) map[string]bool {
	var acl govTypes.ACL
	if s, ok := v.Params["gov/acl"]; ok {
		_ = govTypes.ModuleCdc.UnmarshalJSON([]byte(s), &acl)
	}
	m := map[string]bool{}
	for _, p := range acl {
		m[p.Key] = true
	}
	return m
}

func (w *World) buildACL(v *View, cp CurParams) (*TxSpec, string) {
	var acl govTypes.ACL
	if s, ok := v.Params["gov/acl"]; ok {
		_ = govTypes.ModuleCdc.UnmarshalJSON([]byte(s), &acl)
	}
	key := AllParamKeys[w.R.Intn(len(AllParamKeys))]
	n := w.All[w.R.Intn(len(w.All))]
	na := append(govTypes.ACL{}, acl...)
	w.lastACL = &aclChange{key: key, old: w.ByAddr[hx(acl.GetOwner(key))], new: n, h: w.Env.H + 1}
	na.SetOwner(key, n.Addr)
	if w.R.Chance(25) && key != "gov/acl" {
		// the new list simply omits a key (nothing validates a replacement list): that parameter then has no owner
		var om govTypes.ACL
		for _, pr := range acl {
			if pr.Key != key {
				om = append(om, pr)
			}
		}
		na = om
	}
	if w.R.Chance(12) {
		// the replacement list names a key twice (same or different address)
		dk := AllParamKeys[w.R.Intn(len(AllParamKeys))]
		da := w.All[w.R.Intn(len(w.All))].Addr
		if w.R.Chance(30) {
			da = na.GetOwner(dk)
		}
		na = append(na, govTypes.ACLPair{Key: dk, Addr: da})
	}
	sender := w.currentOwner(v, "gov/acl")
	label := "acl"
	if sender == nil || w.R.Chance(20) {
		sender = w.All[w.R.Intn(len(w.All))]
		label = "acl-anyone"
	}
	bz, err := govTypes.ModuleCdc.MarshalJSON(na)
	if err != nil {
		panic(err)
	}
	msg := govTypes.MsgChangeParam{FromAddress: sender.Addr, ParamKey: "gov/acl", ParamVal: bz}
	return w.honest(sender, msg, cp), label
}

func (w *World) buildDAO(v *View, cp CurParams) (*TxSpec, string) {
	var owner sdk.Address
	if s, ok := v.Params["gov/daoOwner"]; ok {
		_ = govTypes.ModuleCdc.UnmarshalJSON([]byte(s), &owner)
	}
	sender := w.ByAddr[hx(owner)]
	label := "dao"
	if sender == nil || w.R.Chance(25) {
		sender = w.All[w.R.Intn(len(w.All))]
		label = "dao-anyone"
	}
	daoBal := v.Bal(hx(ModuleAddress("dao"))).Int64()
	var amt int64
	switch w.R.Intn(7) {
	case 0:
		amt = 1
	case 1:
		amt = daoBal
	case 2:
		amt = daoBal + 1
	case 3:
		amt = -5
	default:
		amt = 1 + w.R.Int63n(daoBal/10+1)
	}
	action := govTypes.DAOTransferString
	switch w.R.Intn(6) {
	case 0, 1:
		action = govTypes.DAOBurnString
	case 2:
		if w.R.Chance(30) {
			action = "dao_steal"
		}
	}
	to := w.All[w.R.Intn(len(w.All))].Addr
	if w.R.Chance(15) {
		to = ModuleAddress(posTypes.StakedPoolName)
	}
	if w.R.Chance(12) {
		to = ModuleAddress(govTypes.DAOAccountName) // the DAO pays itself
	} else if w.R.Chance(8) {
		to = sender.Addr
	} else if w.R.Chance(3) {
		to = sdk.Address(w.R.Bytes(40)[:32])
	}
	msg := govTypes.MsgDAOTransfer{FromAddress: sender.Addr, ToAddress: to, Amount: sdk.NewInt(amt), Action: action}
	if w.R.Chance(4) {
		msg.Amount = hugeInt(w.R)
	}
	return w.honest(sender, msg, cp), label
}

func (w *World) buildUpgrade(v *View, cp CurParams) (*TxSpec, string) {
	sender := w.currentOwner(v, "gov/upgrade")
	label := "upgrade"
	if sender == nil || w.R.Chance(30) {
		sender = w.All[w.R.Intn(len(w.All))]
		label = "upgrade-anyone"
	}
	h := 1000000 + int64(w.R.Intn(100000))
	if w.R.Chance(35) && w.Env.H >= 1 {
		// a height that has already passed (it can never be reached again, so the exit-on-upgrade path stays out of reach)
		h = 1 + w.R.Int63n(w.Env.H+1)
	}
	ver := "2.0." + fmt.Sprint(w.R.Intn(10))
	if w.R.Chance(30) {
		// a plan the running version already satisfies (no exit when its height comes): heights in the near future
		ver = []string{AppVersion, "0.0.0", ""}[w.R.Intn(3)]
		if w.R.Bool() {
			h = w.Env.H + 1 + int64(w.R.Intn(6))
		}
	}
	msg := govTypes.MsgUpgrade{Address: sender.Addr, Upgrade: govTypes.Upgrade{Height: h, Version: ver}}
	return w.honest(sender, msg, cp), label
}

// Hostile applies one authentication-relevant deviation to an honest spec.
func (w *World) Hostile(s *TxSpec, cp CurParams) string {
	victim := s.SignedBy
	other := w.All[w.R.Intn(len(w.All))]
	for other == victim {
		other = w.All[w.R.Intn(len(w.All))]
	}
	if w.R.Chance(18) {
		// the signed transaction is altered in transit in a way a sloppy canonicalisation might not notice
		switch w.R.Intn(5) {
		case 4:
			// the message is replaced by one of another type that carries the same fields
			s.Mutate = func(tx *authTypes.StdTx) {
				switch m := tx.Msg.(type) {
				case posTypes.MsgBeginUnstake:
					tx.Msg = posTypes.MsgUnjail{ValidatorAddr: m.Address}
				case posTypes.MsgUnjail:
					tx.Msg = posTypes.MsgBeginUnstake{Address: m.ValidatorAddr}
				default:
					tx.Memo += "\t"
				}
			}
			return "message-type-swapped-after-signing"
		case 0:
			s.Mutate = func(tx *authTypes.StdTx) {
				ext := func(a sdk.Address) sdk.Address {
					if len(a) > 20 {
						return append(sdk.Address{}, a[:20]...)
					}
					return append(append(sdk.Address{}, a...), 0x01)
				}
				switch m := tx.Msg.(type) {
				case posTypes.MsgSend:
					m.ToAddress = ext(m.ToAddress)
					tx.Msg = m
				case govTypes.MsgDAOTransfer:
					m.ToAddress = ext(m.ToAddress)
					tx.Msg = m
				default:
					tx.Memo += "\t"
				}
			}
			return "recipient-length-changed-after-signing"
		case 1:
			s.Mutate = func(tx *authTypes.StdTx) {
				if w.R.Bool() {
					tx.Memo += " "
				} else {
					tx.Memo = "\n" + tx.Memo
				}
			}
			return "memo-whitespace-after-signing"
		case 2:
			if w.P.SecondDenom {
				// a fee in two denominations, the coins swapped after signing
				s.FeeRaw = sdk.NewCoins(sdk.NewInt64Coin(SecondDenom, 1+w.R.Int63n(3)), sdk.NewInt64Coin(Denom, cp.RequiredFee(s.Msg.Type())))
				s.Mutate = func(tx *authTypes.StdTx) {
					if len(tx.Fee) == 2 {
						tx.Fee = sdk.Coins{tx.Fee[1], tx.Fee[0]}
					}
				}
				return "fee-coins-swapped-after-signing"
			}
		case 3:
			if w.P.SecondDenom {
				// honestly signed, but part of the fee is in a denomination the signer may not hold
				s.FeeRaw = sdk.NewCoins(sdk.NewInt64Coin(SecondDenom, 1+w.R.Int63n(2000000)), sdk.NewInt64Coin(Denom, cp.RequiredFee(s.Msg.Type())))
				return "fee-with-second-denomination"
			}
		}
	}
	switch w.R.Intn(16) {
	case 0: // attacker signs, attacker key supplied
		s.SignedBy, s.PubInSig = other, other.Pub
		return "attacker-key-supplied"
	case 1: // attacker signs, victim's key supplied / looked up
		s.SignedBy = other
		return "attacker-sig-victim-key"
	case 2:
		s.Mutate = func(tx *authTypes.StdTx) { tx.Memo = tx.Memo + "x" }
		return "mut-memo"
	case 3:
		s.Mutate = func(tx *authTypes.StdTx) { tx.Entropy++ }
		return "mut-entropy"
	case 4:
		s.Mutate = func(tx *authTypes.StdTx) { tx.Fee = coins(tx.Fee.AmountOf(Denom).Int64() + 1) }
		return "mut-fee"
	case 5:
		s.ChainID = "other-chain"
		return "mut-chainid"
	case 6:
		s.Mutate = func(tx *authTypes.StdTx) {
			switch m := tx.Msg.(type) {
			case posTypes.MsgSend:
				m.Amount = m.Amount.Add(sdk.OneInt())
				tx.Msg = m
			case posTypes.MsgStake:
				m.Value = m.Value.Add(sdk.OneInt())
				tx.Msg = m
			case govTypes.MsgDAOTransfer:
				m.Amount = m.Amount.Add(sdk.OneInt())
				tx.Msg = m
			case govTypes.MsgChangeParam:
				m.ParamVal = append(append([]byte{}, m.ParamVal...), ' ')
				tx.Msg = m
			case posTypes.MsgBeginUnstake:
				m.Address = other.Addr
				tx.Msg = m
			case posTypes.MsgUnjail:
				m.ValidatorAddr = other.Addr
				tx.Msg = m
			case govTypes.MsgUpgrade:
				m.Upgrade.Height++
				tx.Msg = m
			}
		}
		return "mut-msg"
	case 7:
		s.Fee = cp.RequiredFee(s.Msg.Type()) - 1
		return "fee-minus-one"
	case 8:
		s.Fee = 0
		return "fee-zero"
	case 9:
		s.Fee = 1 << 60
		return "fee-over-balance"
	case 10:
		s.Mutate = func(tx *authTypes.StdTx) {
			if len(tx.Signature.Signature) > 2 {
				tx.Signature.Signature[len(tx.Signature.Signature)/2] ^= 0x40
			}
		}
		return "sig-bitflip"
	case 11:
		s.Mutate = func(tx *authTypes.StdTx) { tx.Signature.Signature = nil }
		return "sig-empty"
	case 12: // multisig with attacker component
		if len(w.Multi) > 0 {
			m := w.Multi[w.R.Intn(len(w.Multi))]
			evil := NewMultiActor("evil", append([]*Actor{other}, m.Multi[1:]...)...)
			s.SignedBy, s.PubInSig = evil, evil.Pub
			return "multisig-attacker"
		}
		s.SignedBy, s.PubInSig = other, other.Pub
		return "attacker-key-supplied"
	case 13: // signature components permuted (multisig) / pubkey of another type
		if victim != nil && victim.Multi != nil {
			rev := NewMultiActor("rev", reverse(victim.Multi)...)
			s.SigOverride = rev.Sign(mustSignBytes(s))
			s.PubInSig = victim.Pub
			return "multisig-permuted"
		}
		s.PubInSig = other.Pub
		return "pubkey-other"
	case 14:
		if w.P.SecondDenom && w.R.Bool() {
			// the fee is offered in another denomination (alone, or next to one unit of the right one)
			s.FeeRaw = sdk.NewCoins(sdk.NewInt64Coin(SecondDenom, 1+w.R.Int63n(5)))
			if w.R.Bool() {
				s.FeeRaw = s.FeeRaw.Add(sdk.NewCoins(sdk.NewInt64Coin(Denom, 1)))
			}
			return "fee-other-denom"
		}
		s.Memo = string(make([]byte, int(cp.MaxMemo)+1))
		return "memo-too-long"
	default:
		s.Fee = cp.RequiredFee(s.Msg.Type())
		s.Memo = ""
		return "exact-fee"
	}
}

func reverse(a []*Actor) []*Actor {
	out := make([]*Actor, len(a))
	for i := range a {
		out[len(a)-1-i] = a[i]
	}
	return out
}

func mustSignBytes(s *TxSpec) []byte {
	cid := s.ChainID
	if cid == "" {
		cid = ChainID
	}
	sb, err := authTypes.StdSignBytes(cid, s.Entropy, s.fee(), s.Msg, s.Memo)
	if err != nil {
		panic(err)
	}
	return sb
}

// HostileBytes derives a byte string from a valid encoding (or from nothing).
func (w *World) HostileBytes(valid []byte) ([]byte, string) {
	r := w.R
	switch r.Intn(8) {
	case 7:
		// length prefixes in unusual varint forms: padded (continuation bytes of zero), too long for 64 bits, unterminated
		k := []int{1, 2, 8, 9, 10, 11, 15}[r.Intn(7)]
		b := make([]byte, 0, k+1+len(valid))
		for i := 0; i < k; i++ {
			b = append(b, []byte{0x80, 0xff, 0x81}[r.Intn(3)])
		}
		if !r.Chance(20) {
			b = append(b, []byte{0x00, 0x01, 0x02, 0x7f}[r.Intn(4)])
		}
		if r.Bool() && len(valid) > 1 {
			b = append(b, valid[1:]...)
		}
		return b, "varint"
	case 0:
		return r.Bytes(1 + r.Intn(200)), "random"
	case 1:
		if len(valid) > 2 {
			return append([]byte{}, valid[:1+r.Intn(len(valid)-1)]...), "truncated"
		}
	case 2:
		if len(valid) > 0 {
			b := append([]byte{}, valid...)
			for i := 0; i < 1+r.Intn(3); i++ {
				b[r.Intn(len(b))] ^= byte(1 << uint(r.Intn(8)))
			}
			return b, "bitflip"
		}
	case 3:
		return []byte{}, "empty"
	case 4:
		if len(valid) > 4 {
			b := append([]byte{}, valid...)
			b[0] = byte(r.Intn(256)) // length prefix
			return b, "lenprefix"
		}
	case 5:
		if len(valid) > 8 {
			i, j := r.Intn(len(valid)), r.Intn(len(valid))
			if i > j {
				i, j = j, i
			}
			b := append(append([]byte{}, valid[:i]...), valid[j:]...)
			return b, "spliced"
		}
	case 6:
		if len(valid) > 0 {
			return append(append([]byte{}, valid...), r.Bytes(1+r.Intn(16))...), "trailing"
		}
	}
	return r.Bytes(8), "random"
}

// FreshTx builds one honest transaction of a random kind without consuming scenario state (used for simulate).
func (w *World) FreshTx() ([]byte, string, *TxSpec) {
	v := w.View()
	cp := ParamsOf(v)
	var s *TxSpec
	var label string
	switch w.R.Intn(8) {
	case 0:
		s, label = w.buildStake(v, cp)
	case 1:
		s, label = w.buildUnstake(v, cp)
	case 2:
		s, label = w.buildUnjail(v, cp)
	case 3:
		s, label = w.buildGovParam(v, cp)
	case 4:
		s, label = w.buildDAO(v, cp)
	case 5:
		s, label = w.buildUpgrade(v, cp)
	default:
		s, label = w.buildSend(v, cp)
	}
	if s == nil {
		return nil, "", nil
	}
	bz, _, _ := s.Build(w.Env.A.Cdc)
	return bz, "fresh-" + label, s
}

// NextTx draws the next transaction of the random walk.
func (w *World) NextTx() ([]byte, string, *TxSpec) {
	v := w.View()
	cp := ParamsOf(v)
	if len(w.forceUnjail) > 0 {
		a := w.ByAddr[w.forceUnjail[0]]
		w.forceUnjail = w.forceUnjail[1:]
		if a != nil {
			s := w.honest(a, posTypes.MsgUnjail{ValidatorAddr: a.Addr}, cp)
			bz, _, _ := s.Build(w.Env.A.Cdc)
			return bz, "unjail-at-expiry", s
		}
	}
	kind := w.pickWeighted()
	var s *TxSpec
	var label string
	switch kind {
	case "stake":
		s, label = w.buildStake(v, cp)
	case "unstake":
		s, label = w.buildUnstake(v, cp)
	case "unjail":
		s, label = w.buildUnjail(v, cp)
	case "send":
		s, label = w.buildSend(v, cp)
	case "govparam":
		s, label = w.buildGovParam(v, cp)
	case "acl":
		s, label = w.buildACL(v, cp)
	case "dao":
		s, label = w.buildDAO(v, cp)
	case "upgrade":
		s, label = w.buildUpgrade(v, cp)
	case "replay":
		if len(w.SentTxs) > 0 {
			bz := w.SentTxs[w.R.Intn(len(w.SentTxs))]
			if w.R.Chance(30) {
				// the same transaction with bytes appended (another hash, the same signed content)
				return append(append([]byte{}, bz...), w.R.Bytes(1 + w.R.Intn(3))...), "replay-with-trailing-bytes", nil
			}
			return bz, "replay", nil
		}
		s, label = w.buildSend(v, cp)
	case "bytes":
		var valid []byte
		if len(w.SentTxs) > 0 {
			valid = w.SentTxs[w.R.Intn(len(w.SentTxs))]
		}
		bz, l := w.HostileBytes(valid)
		return bz, "bytes-" + l, nil
	default:
		s, label = w.buildSend(v, cp)
	}
	if s == nil {
		return nil, "", nil
	}
	if s.SignedBy != nil && w.Reserved[s.SignedBy.AddrHex()] {
		return nil, "", nil // a script is driving this actor
	}
	if w.R.Chance(w.P.HostilePct) {
		label += "/" + w.Hostile(s, cp)
	}
	bz, _, _ := s.Build(w.Env.A.Cdc)
	return bz, label, s
}

var _ = json.Marshal
var _ crypto.PublicKey

// ParamOwner returns the actor that currently owns a parameter according to the stored ACL (nil if none).
func (w *World) ParamOwner(key string) *Actor { return w.currentOwner(w.View(), key) }

// JSONOf is the amino-JSON encoding used for parameter values.
func JSONOf(x interface{}) []byte { return jsonOf(x) }
