package sim

import (
	"encoding/json"
	"math/big"
	"time"

	sdk "github.com/pokt-network/posmint/types"
	authTypes "github.com/pokt-network/posmint/x/auth/types"
	govTypes "github.com/pokt-network/posmint/x/gov/types"
	posTypes "github.com/pokt-network/posmint/x/pos/types"
)

const SecondDenom = "abc"

var GenesisTime = time.Unix(1600000000, 0).UTC()

// AllParamKeys lists every "subspace/key" the three modules register.
var AllParamKeys = []string{
	"auth/MaxMemoCharacters", "auth/TxSigLimit", "auth/FeeMultipliers",
	"pos/UnstakingTime", "pos/MaxValidators", "pos/StakeDenom", "pos/StakeMinimum", "pos/ProposerRewardPercentage",
	"pos/MaxEvidenceAge", "pos/SignedBlocksWindow", "pos/MinSignedPerWindow", "pos/DowntimeJailDuration",
	"pos/SlashFractionDoubleSign", "pos/SlashFractionDowntime",
	"gov/acl", "gov/daoOwner", "gov/upgrade",
}

type GenAccount struct {
	Actor      *Actor
	Balance    int64
	BalanceBig *big.Int // overrides Balance (amounts beyond int64)
	Extra      int64    // amount of the second denomination "abc"
}
type GenValidator struct {
	Actor *Actor
	Stake int64
	StakeBig *big.Int // overrides Stake (stakes beyond int64: only a genesis file can state them)
	// genesis variety (a state exported from a running chain holds all of these)
	Jailed      bool
	JailedUntil time.Time // signing info of a jailed validator
	Unstaking   bool
	Completion  time.Time // completion time of an unstaking validator
	Tombstoned  bool      // signing info of a jailed validator says tombstoned
}

// GenesisConfig is the harness description of a consistent genesis.
type GenesisConfig struct {
	Accounts   []GenAccount
	Validators []GenValidator
	PosParams  posTypes.Params
	AuthParams authTypes.Params
	ACLOwner   map[string]*Actor // param key -> owner; missing keys get DefaultOwner
	DefOwner   *Actor
	DAOOwner   *Actor
	DAOTokens  int64
	// Exported: the pos genesis is marked as exported from another chain and lists the previous-state powers
	// (the validators Tendermint already has) instead of letting InitGenesis compute the first update batch
	Exported bool
	// Tombstoned: keys without a validator record whose signing info (tombstoned) is part of the genesis state
	Tombstoned []*Actor
	// Defect: a deliberately inconsistent pos genesis (""/validator-twice/cons-key-twice/staked-and-jailed/stake-at-minimum):
	// InitChain may refuse it; if it does not, the resulting chain is judged like any other
	Defect string
	// OmitSupply: the auth genesis states no supply (InitGenesis computes it from the accounts)
	OmitSupply bool
	// OmitInnerAddr: signing-info records of the genesis state do not repeat the address their map key already gives
	OmitInnerAddr bool
}

func coins(n int64) sdk.Coins { return sdk.NewCoins(sdk.NewCoin(Denom, sdk.NewInt(n))) }

// AppState renders the genesis app state. Supply is stated explicitly as
// Σ account coins + Σ genesis stake (pos.InitGenesis funds the pool without touching supply).
func (g GenesisConfig) AppState() []byte {
	var accs authTypes.Accounts
	total := new(big.Int)
	extra := int64(0)
	for _, a := range g.Accounts {
		bal := big.NewInt(a.Balance)
		if a.BalanceBig != nil {
			bal = a.BalanceBig
		}
		cs := sdk.NewCoins(sdk.NewCoin(Denom, sdk.NewIntFromBigInt(bal)))
		if a.Extra > 0 {
			cs = cs.Add(sdk.NewCoins(sdk.NewInt64Coin(SecondDenom, a.Extra)))
			extra += a.Extra
		}
		accs = append(accs, authTypes.NewBaseAccount(a.Actor.Addr, cs, a.Actor.Pub))
		total.Add(total, bal)
	}
	var vals []posTypes.Validator
	sinfos := map[string]posTypes.ValidatorSigningInfo{}
	var prevPowers []posTypes.PrevStatePowerMapping
	prevTotal := int64(0)
	for _, v := range g.Validators {
		val := posTypes.NewValidator(v.Actor.Addr, v.Actor.Pub, sdk.NewInt(v.Stake))
		stake := big.NewInt(v.Stake)
		if v.StakeBig != nil {
			stake = v.StakeBig
			val.StakedTokens = sdk.NewIntFromBigInt(stake)
		}
		if v.Unstaking {
			val.Status = sdk.Unstaking
			val.UnstakingCompletionTime = v.Completion
		}
		if v.Jailed {
			val.Jailed = true
			sinfos[v.Actor.AddrHex()] = posTypes.ValidatorSigningInfo{Address: v.Actor.Addr, StartHeight: 0, JailedUntil: v.JailedUntil, Tombstoned: v.Tombstoned}
		}
		vals = append(vals, val)
		total.Add(total, stake)
		if pw := new(big.Int).Quo(stake, big.NewInt(1000000)); g.Exported && !v.Jailed && !v.Unstaking && pw.Sign() > 0 {
			prevPowers = append(prevPowers, posTypes.PrevStatePowerMapping{Address: v.Actor.Addr, Power: pw.Int64()})
			prevTotal += pw.Int64()
		}
	}
	if g.Defect != "" {
		k := -1
		for i, v := range g.Validators {
			if !v.Jailed && !v.Unstaking && (k < 0 || i == 1) {
				k = i
			}
		}
		if k >= 0 {
			switch g.Defect {
			case "validator-twice":
				vals = append(vals, vals[k])
				total.Add(total, vals[k].StakedTokens.BigInt())
			case "cons-key-twice":
				v2 := vals[k]
				v2.Address = append(sdk.Address{}, v2.Address...)
				v2.Address[len(v2.Address)-1] ^= 0x5a
				vals = append(vals, v2)
				total.Add(total, v2.StakedTokens.BigInt())
			case "staked-and-jailed":
				vals[k].Jailed = true
				sinfos[hx(vals[k].Address)] = posTypes.ValidatorSigningInfo{Address: vals[k].Address, JailedUntil: GenesisTime.Add(time.Hour)}
			case "unstaking-below-minimum":
				total.Sub(total, vals[k].StakedTokens.BigInt())
				vals[k].StakedTokens = sdk.NewInt(g.PosParams.StakeMinimum - 1)
				vals[k].Status = sdk.Unstaking
				vals[k].UnstakingCompletionTime = GenesisTime.Add(10 * time.Minute)
				total.Add(total, vals[k].StakedTokens.BigInt())
			case "stake-at-minimum":
				total.Sub(total, vals[k].StakedTokens.BigInt())
				vals[k].StakedTokens = sdk.NewInt(g.PosParams.StakeMinimum)
				total.Add(total, vals[k].StakedTokens.BigInt())
			}
		}
	}
	supply := sdk.NewCoins(sdk.NewCoin(Denom, sdk.NewIntFromBigInt(total)))
	if extra > 0 {
		supply = supply.Add(sdk.NewCoins(sdk.NewInt64Coin(SecondDenom, extra)))
	}
	if g.OmitSupply {
		supply = nil
	}
	ags := authTypes.GenesisState{Params: g.AuthParams, Accounts: accs, Supply: supply}
	pgs := posTypes.DefaultGenesisState()
	pgs.Params = g.PosParams
	pgs.Validators = vals
	pgs.PrevStateTotalPower = sdk.ZeroInt()
	for i, t := range g.Tombstoned {
		si := posTypes.ValidatorSigningInfo{Address: t.Addr, StartHeight: 0, JailedUntil: time.Unix(253402300799, 0).UTC(), Tombstoned: true}
		_ = i
		if g.OmitInnerAddr {
			si.Address = nil // the map key alone names the address (the record's own copy of it is optional)
		}
		sinfos[t.AddrHex()] = si
	}
	if len(sinfos) > 0 {
		pgs.SigningInfos = sinfos
	}
	if g.Exported {
		pgs.Exported = true
		pgs.PrevStateValidatorPowers = prevPowers
		pgs.PrevStateTotalPower = sdk.NewInt(prevTotal)
	}
	if len(g.Validators) > 0 {
		pgs.PreviousProposer = g.Validators[0].Actor.Addr
	}
	acl := govTypes.ACL{}
	for _, k := range AllParamKeys {
		o := g.DefOwner
		if x, ok := g.ACLOwner[k]; ok {
			o = x
		}
		acl.SetOwner(k, o.Addr)
	}
	ggs := govTypes.GenesisState{
		Params:    govTypes.Params{ACL: acl, DAOOwner: g.DAOOwner.Addr, Upgrade: govTypes.NewUpgrade(0, "")},
		DAOTokens: sdk.NewInt(g.DAOTokens),
	}
	m := map[string]json.RawMessage{
		"auth": authTypes.ModuleCdc.MustMarshalJSON(ags),
		"pos":  posTypes.ModuleCdc.MustMarshalJSON(pgs),
		"gov":  govTypes.ModuleCdc.MustMarshalJSON(ggs),
	}
	bz, err := json.Marshal(m)
	if err != nil {
		panic(err)
	}
	return bz
}
