package sim

import (
	"bytes"
	"crypto/sha256"
	"encoding/binary"
	"encoding/hex"
	"fmt"
	"math/big"
	"sort"
	"time"

	amino "github.com/tendermint/go-amino"

	"github.com/pokt-network/posmint/crypto"
	sdk "github.com/pokt-network/posmint/types"
	authExported "github.com/pokt-network/posmint/x/auth/exported"
	authTypes "github.com/pokt-network/posmint/x/auth/types"
	posTypes "github.com/pokt-network/posmint/x/pos/types"
)

// Raw is the byte-for-byte content of every mounted store: store name -> key -> value.
type Raw map[string]map[string][]byte

// DumpRaw iterates the application's *root* multistore. Blocks execute directly on it
// (see DESIGN §1), so this is the working state at any call boundary.
func (a *App) DumpRaw() Raw {
	out := Raw{}
	for i, k := range a.StoreKeys() {
		m := map[string][]byte{}
		st := a.Store().GetKVStore(k)
		it := st.Iterator(nil, nil)
		for ; it.Valid(); it.Next() {
			m[string(it.Key())] = append([]byte(nil), it.Value()...)
		}
		it.Close()
		out[StoreNames[i]] = m
	}
	return out
}

// Diff lists "store/hexkey" entries that differ between two dumps.
type DiffEntry struct {
	Store string
	Key   []byte
	Old   []byte // nil: absent
	New   []byte
}

func (d DiffEntry) String() string {
	return fmt.Sprintf("%s/%x: %x -> %x", d.Store, d.Key, d.Old, d.New)
}

func DiffRaw(a, b Raw) []DiffEntry {
	var out []DiffEntry
	for _, sn := range StoreNames {
		ma, mb := a[sn], b[sn]
		for k, va := range ma {
			vb, ok := mb[k]
			if !ok {
				out = append(out, DiffEntry{sn, []byte(k), va, nil})
			} else if !bytes.Equal(va, vb) {
				out = append(out, DiffEntry{sn, []byte(k), va, vb})
			}
		}
		for k, vb := range mb {
			if _, ok := ma[k]; !ok {
				out = append(out, DiffEntry{sn, []byte(k), nil, vb})
			}
		}
	}
	sort.Slice(out, func(i, j int) bool {
		if out[i].Store != out[j].Store {
			return out[i].Store < out[j].Store
		}
		return bytes.Compare(out[i].Key, out[j].Key) < 0
	})
	return out
}

func (r Raw) Digest() string {
	h := sha256.New()
	for _, sn := range StoreNames {
		m := r[sn]
		keys := make([]string, 0, len(m))
		for k := range m {
			keys = append(keys, k)
		}
		sort.Strings(keys)
		for _, k := range keys {
			var l [8]byte
			binary.BigEndian.PutUint64(l[:], uint64(len(k)))
			h.Write([]byte(sn))
			h.Write(l[:])
			h.Write([]byte(k))
			binary.BigEndian.PutUint64(l[:], uint64(len(m[k])))
			h.Write(l[:])
			h.Write(m[k])
		}
	}
	return hex.EncodeToString(h.Sum(nil))[:16]
}

// ---- decoded view -----------------------------------------------------------------------------

type AccView struct {
	Addr     string
	Bal      *big.Int // amount of the stake denom
	Bal2     *big.Int // amount of the second denomination (SecondDenom), zero if none
	Other    bool     // holds coins of a denomination that is neither of the two (never expected)
	Module   string   // module account name, "" otherwise
	HasPub   bool
	Negative bool
	Pub      crypto.PublicKey // stored public key (nil if none)
}

type ValView struct {
	Addr      string
	Jailed    bool
	Status    int // 0 unstaked, 1 unstaking, 2 staked
	Tokens    *big.Int
	Unstaking time.Time
	PubRaw    []byte
}

type IndexEntry struct {
	Power uint64
	Addr  string // decoded from the key (inverted bytes)
	Value string // address stored as value
	Key   []byte
}

type QueueEntry struct {
	Time  time.Time
	Addrs []string
	Key   []byte
}

type SignInfo struct {
	Start, Offset, Missed int64
	JailedUntil           time.Time
	Tombstoned            bool
}

type View struct {
	Supply      *big.Int
	Supply2     *big.Int // recorded supply of the second denomination
	SupplyOther bool
	Accounts    map[string]*AccView
	Vals        map[string]*ValView
	Index       []IndexEntry
	PrevPower   map[string]int64
	PrevTotal   *big.Int
	Queue       []QueueEntry
	Sign        map[string]*SignInfo
	MissedBits  map[string]map[int64]bool
	Awards      map[string]*big.Int
	Burns       map[string]sdk.Dec
	Proposer    string
	PubRel      map[string]bool
	Params      map[string]string // "subspace/key" -> raw JSON
	DecodeErr   []string
}

func hx(b []byte) string { return hex.EncodeToString(b) }

func coinsAmount(c sdk.Coins) (*big.Int, bool, bool) {
	amt, _, other, neg := coinsAmount2(c)
	return amt, other, neg
}

// coinsAmount2 splits a coin set into the stake denomination, the second denomination, "anything else" and "any negative".
func coinsAmount2(c sdk.Coins) (*big.Int, *big.Int, bool, bool) {
	amt, amt2 := new(big.Int), new(big.Int)
	other, neg := false, false
	for _, x := range c {
		if x.Amount.IsNegative() {
			neg = true
		}
		switch x.Denom {
		case Denom:
			amt = new(big.Int).Set(x.Amount.BigInt())
		case SecondDenom:
			amt2 = new(big.Int).Set(x.Amount.BigInt())
		default:
			other = true
		}
	}
	return amt, amt2, other, neg
}

// Decode interprets a raw dump with the application's codec.
func (a *App) Decode(r Raw) *View {
	v := &View{Supply: new(big.Int), Supply2: new(big.Int), Accounts: map[string]*AccView{}, Vals: map[string]*ValView{},
		PrevPower: map[string]int64{}, PrevTotal: new(big.Int), Sign: map[string]*SignInfo{},
		MissedBits: map[string]map[int64]bool{}, Awards: map[string]*big.Int{}, Burns: map[string]sdk.Dec{},
		PubRel: map[string]bool{}, Params: map[string]string{}}
	bad := func(f string, args ...interface{}) { v.DecodeErr = append(v.DecodeErr, fmt.Sprintf(f, args...)) }
	try := func(what string, fn func()) {
		defer func() {
			if rr := recover(); rr != nil {
				bad("%s: %v", what, rr)
			}
		}()
		fn()
	}
	cdc := a.Cdc
	for k, val := range r["auth"] {
		kb := []byte(k)
		switch {
		case len(kb) == 1 && kb[0] == 0x00:
			try("supply", func() {
				var s authExported.SupplyI
				cdc.MustUnmarshalBinaryLengthPrefixed(val, &s)
				amt, amt2, other, _ := coinsAmount2(s.GetTotal())
				v.Supply, v.Supply2, v.SupplyOther = amt, amt2, other
			})
		case kb[0] == 0x01:
			try("account", func() {
				var acc authExported.Account
				cdc.MustUnmarshalBinaryBare(val, &acc)
				amt, amt2, other, neg := coinsAmount2(acc.GetCoins())
				av := &AccView{Addr: hx(kb[1:]), Bal: amt, Bal2: amt2, Other: other, Negative: neg, HasPub: acc.GetPubKey() != nil, Pub: acc.GetPubKey()}
				if m, ok := acc.(*authTypes.ModuleAccount); ok {
					av.Module = m.Name
				}
				if hx(acc.GetAddress()) != av.Addr {
					bad("account key %x holds address %x", kb[1:], acc.GetAddress())
				}
				v.Accounts[av.Addr] = av
			})
		default:
			bad("auth: unknown key %x", kb)
		}
	}
	for k, val := range r["pos"] {
		kb := []byte(k)
		switch kb[0] {
		case 0x01:
			try("proposer", func() {
				var ad sdk.Address
				cdc.MustUnmarshalBinaryLengthPrefixed(val, &ad)
				v.Proposer = hx(ad)
			})
		case 0x11:
			try("signinfo", func() {
				var si posTypes.ValidatorSigningInfo
				cdc.MustUnmarshalBinaryLengthPrefixed(val, &si)
				v.Sign[hx(kb[1:])] = &SignInfo{Start: si.StartHeight, Offset: si.IndexOffset, Missed: si.MissedBlocksCounter,
					JailedUntil: si.JailedUntil, Tombstoned: si.Tombstoned}
			})
		case 0x12:
			try("missed", func() {
				if len(kb) != 1+sdk.AddrLen+8 {
					panic("bad key length")
				}
				var b bool
				cdc.MustUnmarshalBinaryLengthPrefixed(val, &b)
				ad := hx(kb[1 : 1+sdk.AddrLen])
				idx := int64(binary.LittleEndian.Uint64(kb[1+sdk.AddrLen:]))
				if v.MissedBits[ad] == nil {
					v.MissedBits[ad] = map[int64]bool{}
				}
				v.MissedBits[ad][idx] = b
			})
		case 0x13:
			v.PubRel[hx(kb[1:])] = true
		case 0x21:
			try("validator", func() {
				var val2 posTypes.Validator
				cdc.MustUnmarshalBinaryLengthPrefixed(val, &val2)
				vv := &ValView{Addr: hx(kb[1:]), Jailed: val2.Jailed, Status: int(val2.Status),
					Tokens: new(big.Int).Set(val2.StakedTokens.BigInt()), Unstaking: val2.UnstakingCompletionTime}
				if val2.PublicKey != nil {
					vv.PubRaw = val2.PublicKey.RawBytes()
				}
				if hx(val2.Address) != vv.Addr {
					bad("validator key %x holds address %x", kb[1:], val2.Address)
				}
				v.Vals[vv.Addr] = vv
			})
		case 0x23:
			try("index", func() {
				if len(kb) != 1+8+sdk.AddrLen {
					panic("bad key length")
				}
				ad := make([]byte, sdk.AddrLen)
				for i := range ad {
					ad[i] = ^kb[9+i]
				}
				v.Index = append(v.Index, IndexEntry{Power: binary.BigEndian.Uint64(kb[1:9]), Addr: hx(ad), Value: hx(val), Key: kb})
			})
		case 0x31:
			try("prevpower", func() {
				var p int64
				cdc.MustUnmarshalBinaryLengthPrefixed(val, &p)
				v.PrevPower[hx(kb[1:])] = p
			})
		case 0x32:
			try("prevtotal", func() {
				var p sdk.Int
				cdc.MustUnmarshalBinaryLengthPrefixed(val, &p)
				v.PrevTotal = new(big.Int).Set(p.BigInt())
			})
		case 0x41:
			try("queue", func() {
				var addrs []sdk.Address
				cdc.MustUnmarshalBinaryLengthPrefixed(val, &addrs)
				t, err := sdk.ParseTimeBytes(kb[1:])
				if err != nil {
					panic(err)
				}
				q := QueueEntry{Time: t, Key: kb}
				for _, ad := range addrs {
					q.Addrs = append(q.Addrs, hx(ad))
				}
				v.Queue = append(v.Queue, q)
			})
		case 0x51:
			try("award", func() {
				var n sdk.Int
				cdc.MustUnmarshalBinaryBare(val, &n)
				v.Awards[hx(kb[1:])] = new(big.Int).Set(n.BigInt())
			})
		case 0x52:
			try("burn", func() {
				var d sdk.Dec
				amino.MustUnmarshalBinaryBare(val, &d)
				v.Burns[hx(kb[1:])] = d
			})
		default:
			bad("pos: unknown key %x", kb)
		}
	}
	sort.Slice(v.Index, func(i, j int) bool { return bytes.Compare(v.Index[i].Key, v.Index[j].Key) < 0 })
	sort.Slice(v.Queue, func(i, j int) bool { return bytes.Compare(v.Queue[i].Key, v.Queue[j].Key) < 0 })
	for k, val := range r["params"] {
		v.Params[k] = string(val)
	}
	return v
}

// ParamInt etc. read harness-side parameter values from the snapshot (raw JSON), independent of the keepers.
func (v *View) ParamRaw(key string) string { return v.Params[key] }

func (v *View) Bal(addr string) *big.Int {
	if a, ok := v.Accounts[addr]; ok {
		return a.Bal
	}
	return new(big.Int)
}
