package main

import (
	"time"
	"encoding/json"
	"fmt"
	"io/ioutil"
	"os"
	"os/exec"
	"path/filepath"
	"strings"

	dbm "github.com/tendermint/tm-db"

	"verif/harness/mon"
	"verif/harness/sim"
	"verif/harness/storechk"
)

// ---- history runner -------------------------------------------------------------------------------

type histReplay struct {
	Profile string         `json:"profile"`
	Log     []sim.LogEntry `json:"log"`
	// TwinLog: the calls the second instance received (C01 / C11 twin monitors); a replay runs both logs on
	// fresh instances and compares them
	TwinLog []sim.LogEntry `json:"twin_log,omitempty"`
}

type appCase struct {
	ID           string
	Seed         uint64
	Prof         sim.Profile
	Scenario     func(w *sim.World) // nil: random walk
	CrossProcess bool
}

func monitorsFor(prop string, seed uint64, idx *sim.TxIndex) []sim.Monitor {
	switch prop {
	case "C01":
		return []sim.Monitor{mon.NewC01(seed, idx)}
	case "C02":
		return []sim.Monitor{mon.C02{}}
	case "C03":
		return []sim.Monitor{mon.NewC03()}
	case "C04":
		return []sim.Monitor{mon.NewC04()}
	case "C05":
		return []sim.Monitor{mon.C05{}}
	case "C06":
		return []sim.Monitor{&mon.C06{}}
	case "C07":
		return []sim.Monitor{mon.C07{}}
	case "C08":
		return []sim.Monitor{mon.NewC08()}
	case "C09":
		return []sim.Monitor{mon.NewC09()}
	case "C10":
		return []sim.Monitor{mon.NewC10()}
	case "C11":
		return []sim.Monitor{mon.C11{}, mon.NewC11Twin(seed, idx)}
	case "C14":
		return []sim.Monitor{mon.NewC14()}
	case "C17":
		return []sim.Monitor{mon.C17{}}
	}
	return nil
}

var sharedIdx *sim.TxIndex

func getIdx() *sim.TxIndex {
	if sharedIdx == nil {
		var err error
		sharedIdx, err = sim.NewTxIndex()
		if err != nil {
			panic(err)
		}
	}
	return sharedIdx
}

func compress(log []sim.LogEntry, max int) []string {
	var out []string
	for _, le := range log {
		s := le.Kind
		switch le.Kind {
		case "begin":
			s = fmt.Sprintf("begin h=%d t=%d votes=%d ev=%d ext=%d", le.Begin.Height, le.Begin.Time, len(le.Begin.Votes), len(le.Begin.Evidence), len(le.Ext))
		case "deliver", "check":
			s = le.Kind + ":" + le.Label
		case "query":
			s = "query:" + le.Query.Path
		case "init":
			s = "init"
		}
		out = append(out, s)
		if len(out) >= max {
			out = append(out, fmt.Sprintf("... (%d calls in total)", len(log)))
			break
		}
	}
	return out
}

// runCase executes one history with the monitors of prop and folds the observations into the result.
func runCase(c *Ctx, prop string, ac appCase, nontrivialKeys []string) {
	idx := getIdx()
	idx.Reset()
	w := sim.NewWorld(ac.Seed, ac.Prof, idx)
	w.Env.Monitors = monitorsFor(prop, ac.Seed, idx)
	for _, m := range w.Env.Monitors {
		if tw, ok := m.(*mon.C01); ok {
			tw.W = w
		}
	}
	w.Env.Monitors = append(w.Env.Monitors, mon.NewStateStats())
	var dg *mon.Digest
	if prop == "C01" && ac.CrossProcess {
		dg = &mon.Digest{}
		w.Env.Monitors = append(w.Env.Monitors, dg)
	}
	if osGetenv("VCHECK_TRACE") != "" {
		w.Env.Monitors = append([]sim.Monitor{mon.Trace{}}, w.Env.Monitors...)
	}
	if c.Journal != "" {
		if jf, err := os.OpenFile(c.Journal, os.O_CREATE|os.O_TRUNC|os.O_WRONLY, 0644); err == nil {
			fmt.Fprintf(jf, "{\"case\":%q,\"profile\":%q}\n", ac.ID, ac.Prof.Name)
			w.Env.LogFile = jf
			defer func() {
				fmt.Fprintln(jf, `{"case_end":true}`)
				jf.Close()
			}()
		}
	}
	ic := w.Start(dbm.NewMemDB())
	c.Res.Cases++
	if ic.Panic != "" && w.Cfg.Defect != "" {
		// a deliberately inconsistent genesis was refused: nothing to judge
		c.Res.count("genesis_refused."+w.Cfg.Defect, 1)
		return
	}
	if ic.Panic != "" {
		if prop == "C05" {
			// a consistent genesis: InitChain has to deliver the first validator set
			w.Env.Violate("C05", "initchain-panics/"+panicClassOf(ic.Panic), fmt.Sprintf("InitChain panicked on a consistent genesis: %s", firstLine(ic.Panic)), ic)
			foldEnv(c, prop, ac.ID, ac.Prof.Name, w.Env, nontrivialKeys)
			return
		}
		c.Res.Inconcl = append(c.Res.Inconcl, fmt.Sprintf("case %s: InitChain panicked: %s", ac.ID, firstLine(ic.Panic)))
		return
	}
	if w.Cfg.Defect != "" {
		c.Res.count("genesis_accepted_despite."+w.Cfg.Defect, 1)
	}
	if ac.Scenario != nil {
		ac.Scenario(w)
	} else {
		w.Run()
	}
	foldEnv(c, prop, ac.ID, ac.Prof.Name, w.Env, nontrivialKeys)
	if dg != nil {
		crossProcess(c, ac.ID, w.Env, dg.Lines)
	}
}

func foldEnv(c *Ctx, prop, caseID, profName string, e *sim.Env, nontrivialKeys []string) {
	for k, v := range e.Stats {
		c.Res.count(k, v)
	}
	c.Res.count("blocks_committed", e.H)
	c.Res.count("abci_calls", int64(len(e.Log)))
	if e.Dead {
		c.Res.count("histories_ended_by_node_death", 1)
	}
	for _, n := range e.DecodeNotes {
		if len(c.Res.Inconcl) < 40 {
			c.Res.Inconcl = append(c.Res.Inconcl, fmt.Sprintf("case %s: the state snapshot holds a record the harness cannot interpret (%s): monitors judged an incomplete view", caseID, n))
		}
	}
	nt := len(nontrivialKeys) == 0
	for _, k := range nontrivialKeys {
		if e.Stats[k] > 0 {
			nt = true
		}
	}
	if nt {
		bz, _ := json.Marshal(e.Log)
		c.Nontrivial(string(bz))
	}
	c.Sample(map[string]interface{}{"case": caseID, "profile": profName, "blocks": e.H, "calls": compress(e.Log, 40)})
	for _, v := range e.Viol {
		if v.Prop != prop {
			continue
		}
		// the history up to and including the violating call is enough to replay it
		log := e.Log
		for i, le := range log {
			if le.Seq > v.Seq && v.Seq > 0 {
				log = log[:i]
				break
			}
		}
		hr := histReplay{Profile: profName, Log: log}
		for _, m := range e.Monitors {
			if tw, ok := m.(*mon.C01); ok && tw.T != nil && (strings.HasPrefix(v.Sig, "divergence/") || strings.HasPrefix(v.Sig, "traceless-rejections-matter/")) {
				hr.TwinLog = tw.T.Log
			}
		}
		c.Violation(v.Prop, v.Sig, v.Msg, caseID, hr)
	}
}

func replayHistory(prop string) func(c *Ctx, raw json.RawMessage) {
	return func(c *Ctx, raw json.RawMessage) {
		if prop == "C14" {
			var ms struct {
				H     *storechk.MSHist `json:"multistore"`
				QSeed uint64           `json:"qseed"`
			}
			if json.Unmarshal(raw, &ms) == nil && ms.H != nil {
				storechk.RunC14(ms.H, sim.NewRand(ms.QSeed), &caseReporter{c: c, caseID: "replay", replay: raw})
				return
			}
		}
		var hr histReplay
		if err := json.Unmarshal(raw, &hr); err != nil {
			c.Res.Inconcl = append(c.Res.Inconcl, "bad replay: "+err.Error())
			return
		}
		idx := getIdx()
		idx.Reset()
		if len(hr.TwinLog) > 0 {
			// two fresh instances, one per recorded log; compared at the end
			a := sim.NewEnv(idx)
			a.Replay(dbm.NewMemDB(), hr.Log)
			idx.Reset()
			b := sim.NewEnv(idx)
			b.Replay(dbm.NewMemDB(), hr.TwinLog)
			c.Res.Cases++
			if a.Dead != b.Dead {
				c.Violation(prop, "divergence/replay/death", fmt.Sprintf("replayed instances: dead %v vs %v", a.Dead, b.Dead), "replay", hr)
			} else if d := sim.DiffRaw(a.A.DumpRaw(), b.A.DumpRaw()); len(d) > 0 {
				c.Violation(prop, "divergence/replay/state-content", fmt.Sprintf("replayed instances differ in %d keys, first %s", len(d), d[0].String()), "replay", hr)
			}
			return
		}
		e := sim.NewEnv(idx)
		e.Monitors = monitorsFor(prop, c.Seed, idx)
		if osGetenv("VCHECK_TRACE") != "" {
			e.Monitors = append([]sim.Monitor{mon.Trace{}}, e.Monitors...)
		}
		e.Replay(dbm.NewMemDB(), hr.Log)
		foldEnv(c, prop, "replay", hr.Profile, e, nil)
	}
}

// digestMain: a separate OS process replays a request log on a fresh instance and prints the digest lines.
func digestMain(path string) {
	bz, err := ioutil.ReadFile(path)
	if err != nil {
		fmt.Println("ERR", err)
		return
	}
	var log []sim.LogEntry
	if err := json.Unmarshal(bz, &log); err != nil {
		fmt.Println("ERR", err)
		return
	}
	idx := getIdx()
	e := sim.NewEnv(idx)
	e.NoSnap = true
	d := &mon.Digest{}
	e.Monitors = []sim.Monitor{d}
	e.Replay(dbm.NewMemDB(), log)
	out, _ := json.Marshal(d.Lines)
	fmt.Println("DIGEST " + string(out))
}

// crossProcess re-executes the history in another OS process (other GOMAXPROCS / GC settings) and compares digests.
func crossProcess(c *Ctx, caseID string, e *sim.Env, own []string) {
	// only consensus calls matter; read-only calls of the primary are dropped (they must not matter)
	var log []sim.LogEntry
	for _, le := range e.Log {
		switch le.Kind {
		case "init", "begin", "deliver", "end", "commit":
			log = append(log, le)
		}
	}
	bz, _ := json.Marshal(log)
	f := filepath.Join(c.OutDir, fmt.Sprintf("xproc-%d-%s.json", c.Shard, caseID))
	if ioutil.WriteFile(f, bz, 0644) != nil {
		return
	}
	defer os.Remove(f)
	self, _ := os.Executable()
	cmd := exec.Command("timeout", "-s", "KILL", "300", self, "--digest", f)
	procs := []string{"1", "2", "16"}[len(caseID)%3]
	cmd.Env = append(os.Environ(), "GOMAXPROCS="+procs, "GOGC="+[]string{"5", "50", "400"}[len(own)%3])
	outb, err := cmd.Output()
	var theirs []string
	for _, line := range strings.Split(string(outb), "\n") {
		if strings.HasPrefix(line, "DIGEST ") {
			json.Unmarshal([]byte(line[7:]), &theirs)
		}
	}
	if theirs == nil {
		c.Res.Inconcl = append(c.Res.Inconcl, fmt.Sprintf("cross-process replay of %s produced no digest (%v)", caseID, err))
		return
	}
	c.Res.count("c01.cross_process_histories", 1)
	c.Res.count("c01.cross_process_calls_compared", int64(len(own)))
	n := len(own)
	if len(theirs) < n {
		n = len(theirs)
	}
	for i := 0; i < n; i++ {
		if own[i] != theirs[i] {
			c.Violation("C01", "divergence/cross-process", fmt.Sprintf("a second OS process (GOMAXPROCS=%s) executing the same requests diverges at consensus call %d: %q vs %q", procs, i, own[i], theirs[i]), caseID, histReplay{Profile: "cross-process", Log: e.Log})
			return
		}
	}
	if len(own) != len(theirs) {
		c.Violation("C01", "divergence/cross-process-length", fmt.Sprintf("a second OS process produced %d consensus responses, this one %d", len(theirs), len(own)), caseID, histReplay{Profile: "cross-process", Log: e.Log})
	}
}

func firstLine(s string) string {
	for i := 0; i < len(s); i++ {
		if s[i] == '\n' {
			return s[:i]
		}
	}
	return s
}

// ---- profiles ---------------------------------------------------------------------------------------

func baseProfile(r *sim.Rand, small bool) sim.Profile {
	p := sim.DefaultProfile()
	if small {
		p.Name = "small-window"
		p.CustomPos = true
		p.Pos = sim.SmallWindowPos(r)
		p.Steps = []int64{0, 1, 1, 5, 30, 60, 300, 3600}
	}
	switch r.Intn(4) {
	case 0:
		p.Pruning = &[2]int64{0, 1}
	case 1:
		p.Pruning = nil
	case 2:
		p.Pruning = &[2]int64{100, 10000}
	case 3:
		p.Pruning = &[2]int64{1, 2}
	}
	p.FeeMultiplier = r.PickI64(1, 1, 2)
	return p
}

func profileFor(prop string, r *sim.Rand, i int, quick bool) sim.Profile {
	p := profileFor0(prop, r, i, quick)
	switch prop {
	case "C02", "C04", "C05", "C06", "C07", "C08", "C09", "C10", "C01", "C11":
		// Tendermint's block times carry nanoseconds; scenario scripts (i%8 == 1, 3, 5) keep whole seconds
		p.SubSecond = i%8 == 2 || i%8 == 6
	}
	switch prop {
	case "C01", "C11":
		if i%4 == 1 {
			// a block gas limit that the busier blocks reach; the two large ones are never reached by a block, only by
			// gas that is (wrongly) carried over from earlier blocks or from read-only traffic
			p.BlockMaxGas = []int64{150000, 400000, 60000, 8000000, 30000000}[i/4%5]
		}
		p.Trace = prop == "C11" && i%4 == 2
	}
	switch prop {
	case "C01", "C02", "C04", "C05", "C06", "C07", "C09":
		// genesis states as exported from a running chain: validators in jail, validators that are unstaking
		p.RichGenesis = i%8 == 4
		p.ImpliedSupply = (prop == "C01" || prop == "C02") && i%8 == 5
		p.HugeGenesisStake = i%16 == 4 && prop != "C01"
		if (prop == "C01" || prop == "C05") && i%16 == 14 {
			// scale: hundreds of validators (more records than the keepers' decoding caches hold once a few of them
			// have changed), everybody in Tendermint's set or a cut-off in the middle of it
			p.NEd, p.GenesisVals = 492, 484
			p.Blocks = 36
			p.Name += "+scale"
			if p.CustomPos {
				p.Pos.MaxValidators = []uint64{100000, 300}[i/16%2]
			}
		}
		p.ExportedGenesis = i%16 == 12
	}
	switch prop {
	case "C05", "C06", "C08", "C09", "C07":
		// a restart now and then (in-memory bookkeeping must not be needed), validators whose addresses end in 0xFF/0x00
		if i%4 == 0 {
			p.RestartPct = 6
		}
		p.EdgeAddresses = i%4 == 2
		p.SecpValidators = (prop == "C05" && i%4 == 3) || (prop == "C09" && i%8 == 7)
		if prop == "C07" || prop == "C09" {
			p.NearOldEvPct = 10
		}
		if (prop == "C07" || prop == "C06" || prop == "C05") && i%8 == 2 && p.CustomPos {
			p.Pos.UnstakingTime = time.Duration([]int64{0, 1}[i/8%2]) * time.Second // no (or almost no) unstaking period
		}
		if (prop == "C07" || prop == "C09") && i%8 == 6 {
			p.FatalEvPct = 25 // some evidence the application cannot handle (unknown key, too old, tombstoned, unstaked offender)
			p.OldEvPct = 50   // ... among it evidence just beyond the maximum age (by seconds, or by a nanosecond)
			p.EvidencePct = 22
		}
		p.UnstakingTimeChanges = prop == "C06" && i%8 == 0
		if p.UnstakingTimeChanges {
			p.W["govparam"] = 14
		}
	}
	return p
}

func profileFor0(prop string, r *sim.Rand, i int, quick bool) sim.Profile {
	small := i%2 == 1
	p := baseProfile(r, small)
	p.Blocks = 120
	if !quick {
		p.Blocks = 300
	}
	switch prop {
	case "C01":
		p.RestartPct = 0
		p.ReadsPct = 15
	case "C02", "C04":
		p.AwardPct, p.BurnPct, p.EvidencePct = 45, 15, 6
		p.W["stake"], p.W["unstake"], p.W["send"], p.W["dao"] = 20, 10, 20, 10
		if prop == "C04" {
			p.Whale = i%8 == 5
		}
		if prop == "C02" {
			p.SecondDenom = i%4 == 2 // a second denomination in circulation (fees may be offered in it)
			if p.SecondDenom {
				p.HostilePct = 40
			}
		}
		if i%8 == 7 {
			p.MinStakeRaises = true
			p.W["govparam"] = 14
		}
	case "C10":
		p.AwardPct, p.UnknownPropPct = 60, 20
		p.W["send"] = 25
		p.MaxTx = 8
	case "C03":
		p.HostilePct, p.ProbePct = 60, 50
		p.W["replay"] = 8
		p.W["bytes"] = 1
		p.MaxTx = 10
		p.EvidencePct, p.BurnPct = 0, 0
		p.SecondDenom = i%3 == 0
		p.ForeignKeyAccount = i%4 == 1
		p.HugeFeeMultipliers = i%4 == 2
		if p.HugeFeeMultipliers {
			p.W["govparam"] = 14
		}
	case "C05", "C06", "C09":
		small = true
		p = baseProfile(r, true)
		p.Blocks = 150
		if !quick {
			p.Blocks = 400
		}
		p.W["stake"], p.W["unstake"], p.W["unjail"] = 25, 14, 16
		p.BurnPct, p.EvidencePct = 15, 6
		p.MissLevels = []int{0, 0, 20, 60, 100}
		p.PhaseLen = 12
		p.AimPct = 30
		if i%8 == 7 || (prop == "C06" && i%8 == 5) {
			p.MinStakeRaises = true
			p.W["govparam"] = 14
		}
		p.Whale = prop == "C06" && i%8 == 6
	case "C07":
		p = baseProfile(r, true)
		p.Blocks = 150
		if !quick {
			p.Blocks = 400
		}
		p.BurnPct, p.EvidencePct = 30, 14
		p.MissLevels = []int{0, 20, 60, 100}
		p.PhaseLen = 12
		p.W["stake"], p.W["unstake"] = 25, 10
	case "C08":
		p = baseProfile(r, true)
		p.Blocks = 4*int(p.Pos.SignedBlocksWindow) + 60
		if !quick {
			p.Blocks = 10*int(p.Pos.SignedBlocksWindow) + 100
		}
		p.MissLevels = []int{0, 10, 45, 50, 55, 80, 100}
		p.PhaseLen = int(p.Pos.SignedBlocksWindow)/2 + 1 + r.Intn(8)
		if i%8 == 5 {
			p.WindowChanges = true
			p.W["govparam"] = 14
		}
		p.EvidencePct, p.BurnPct, p.AwardPct = 0, 2, 5
		p.W["stake"], p.W["unstake"], p.W["unjail"] = 22, 8, 18
		p.MaxTx = 4
		p.Pos.MaxValidators = 100000
	case "C11":
		p.W["bytes"] = 20
		p.ReadsPct, p.HostilePct, p.ProbePct = 45, 40, 30
		p.MaxTx = 8
		p.W["upgrade"] = 6
		p.RestartPct = 4
		p.SecondDenom = i%4 == 2
		p.Whale = i%8 == 4
		if i%4 == 3 {
			p.MinStakeRaises = true
			p.W["govparam"] = 14
		}
	case "C14":
		p.QueryHeavy = true
		p.ReadsPct = 70
		p.RestartPct = 12
		p.Blocks = 60
		if !quick {
			p.Blocks = 200
		}
		switch r.Intn(7) {
		case 5:
			p.Pruning = &[2]int64{0, 0} // "prune everything", stated through the application's option
		case 6:
			p.Pruning = &[2]int64{0, 4}
		case 0:
			p.Pruning = &[2]int64{0, 1}
		case 1:
			p.Pruning = &[2]int64{2, 3}
		case 2:
			p.Pruning = &[2]int64{5, 0}
		case 3:
			p.Pruning = &[2]int64{3, 7}
		case 4:
			p.Pruning = nil
		}
	case "C17":
		p.W["govparam"], p.W["dao"], p.W["acl"], p.W["upgrade"] = 30, 20, 10, 6
		p.NoDAOOwner = i%5 == 2
		p.HostilePct = 15
		p.EvidencePct, p.BurnPct = 0, 0
	}
	return p
}

func appRun(prop string, nontrivial []string) func(c *Ctx) {
	return func(c *Ctx) {
		if prop == "C14" {
			runC14MS(c)
		}
		n := 48
		if !c.Quick() {
			n = 16 * 40
		}
		if os := raceSlice(); os {
			n = 6
		}
		master := sim.NewRand(c.Seed ^ hashStr(prop))
		for i := 0; i < n; i++ {
			r := master.Split(uint64(i))
			if !c.Mine(i) {
				continue
			}
			if oc := osGetenv("VCHECK_ONLY_CASE"); oc != "" && oc != fmt.Sprint(i) {
				continue
			}
			p := profileFor(prop, r, i, c.Quick())
			ac := appCase{ID: fmt.Sprintf("h%d", i), Seed: r.U64(), Prof: p, CrossProcess: (i%4 == 0 || (prop == "C01" && p.BlockMaxGas >= 8000000)) && !raceSlice()}
			if sc, tweak := scenarioFor(prop, i, r); sc != nil {
				tweak(&ac.Prof)
				ac.Scenario = sc
				ac.Prof.Name += "+scenario"
			}
			runCase(c, prop, ac, nontrivial)
		}
		switch prop {
		case "C02", "C04", "C05", "C06", "C09":
			// deliberately inconsistent genesis files: InitChain refuses them, or the chain it starts is judged like any other
			defects := []string{"validator-twice", "cons-key-twice", "staked-and-jailed", "stake-at-minimum", "unstaking-below-minimum"}
			extra := len(defects)
			if !c.Quick() {
				extra = 6 * len(defects)
			}
			if raceSlice() {
				extra = 0
			}
			for j := 0; j < extra; j++ {
				r := master.Split(uint64(1000000 + j))
				if !c.Mine(n+j) || osGetenv("VCHECK_ONLY_CASE") != "" && osGetenv("VCHECK_ONLY_CASE") != fmt.Sprint(n+j) {
					continue
				}
				p := profileFor(prop, r, 8*(j/len(defects)), c.Quick()) // the plain profile family
				p.OddGenesis = defects[j%len(defects)]
				p.RichGenesis, p.ExportedGenesis = false, false
				if p.CustomPos {
					p.Pos.MaxValidators = 100000 // the validator the defect sits on is inside the set
				}
				p.Blocks = 25
				p.Name += "+odd-genesis:" + p.OddGenesis
				runCase(c, prop, appCase{ID: fmt.Sprintf("og%d", j), Seed: r.U64(), Prof: p}, nontrivial)
			}
		}
	}
}

// panicClassOf: the panic message without numbers and hex (a stable signature component).
func panicClassOf(p string) string {
	s := firstLine(p)
	out := make([]byte, 0, len(s))
	for i := 0; i < len(s) && len(out) < 40; i++ {
		ch := s[i]
		switch {
		case ch >= 'a' && ch <= 'z', ch >= 'A' && ch <= 'Z':
			out = append(out, ch)
		case ch == ' ' && len(out) > 0 && out[len(out)-1] != '-':
			out = append(out, '-')
		}
	}
	return string(out)
}

func hashStr(s string) uint64 {
	var h uint64 = 1469598103934665603
	for i := 0; i < len(s); i++ {
		h ^= uint64(s[i])
		h *= 1099511628211
	}
	return h
}

func workersFor(q, t int) func(string) int {
	return func(tier string) int {
		if tier == "thorough" {
			return t
		}
		return q
	}
}

const appAssume = "the harness's Tendermint model (validator-set pipeline, vote/evidence construction, tx index) produces only request sequences Tendermint could produce"

func init() {
	reg := func(id, rule string, nontrivial []string, floors map[string]int64, race bool) {
		register(&PropDef{ID: id, Level: "exploration", Workers: workersFor(8, 16), Run: appRun(id, nontrivial),
			Replay: replayHistory(id), Rule: rule, Floors: floors, Race: race,
			Assume: []string{appAssume, "consensus MaxGas = -1", "StakeMinimum and the downtime-window parameters are constant within a history"}})
	}
	reg("C01", "one case = one generated block history executed on two instances; non-trivial = at least one height compared; distinct by hash of the request log",
		[]string{"c01.heights_compared"}, map[string]int64{"c01.heights_compared": 500, "c01.twin_restarts": 20, "c01.cross_process_histories": 5}, true)
	reg("C02", "one case = one generated history; non-trivial = it contains a block that mints an award or burns stake, or a DAO burn; distinct by hash of the request log",
		[]string{"c02.mint_blocks", "c02.burn_blocks", "c02.dao_burns"}, map[string]int64{"c02.mint_blocks": 50, "c02.burn_blocks": 5, "c02.transitions": 5000}, false)
	reg("C03", "one case = one generated history with hostile transaction variants; non-trivial = at least one tx was accepted and one rejected; distinct by hash of the request log",
		[]string{"c03.accepted.deliver"}, map[string]int64{"c03.accepted.deliver": 300, "c03.accepted.check": 100, "c03.rejected.deliver": 300}, false)
	reg("C04", "one case = one generated history; non-trivial = contains a successful stake; distinct by hash of the request log",
		[]string{"c04.stakes"}, map[string]int64{"c04.stakes": 50, "c04.maturities": 3, "c04.invariant_checks": 5000}, false)
	reg("C05", "one case = one generated history; non-trivial = at least one non-empty validator-update batch was applied to Tendermint's ValidatorSet; distinct by hash of the request log",
		[]string{"c05.nonempty_update_batches"}, map[string]int64{"c05.nonempty_update_batches": 200, "c05.sets_compared": 2000, "c05.cutoff_active": 20}, false)
	reg("C06", "one case = one generated history; non-trivial = at least one status edge observed; distinct by hash of the request log",
		[]string{"c06.edge.staked->unstaking", "c06.edge.absent->staked", "c06.edge.unstaked->staked"}, map[string]int64{"c06.edge.staked->unstaking": 20, "c06.payouts": 5, "c06.structure_checks": 5000, "c06.payout_exactly_at_completion": 20, "c06.forced_unstakes": 5}, false)
	reg("C07", "one case = one generated history; non-trivial = at least one slash burned tokens; distinct by hash of the request log",
		[]string{"c07.slashes_burning", "c07.double_sign_burns"}, map[string]int64{"c07.slashes_burning": 20, "c07.queued_burns": 20, "c07.evidence_exactly_at_max_age": 10, "c07.crossed_minimum": 10, "c07.slash_of_unstaking": 10, "c07.double_sign_burns": 10, "c07.downtime_slashes": 10, "c07.slash_leaves_exactly_the_minimum": 2}, false)
	reg("C08", "one case = one generated history over >= 4 windows; non-trivial = at least one missed vote was accounted; distinct by hash of the request log",
		[]string{"c08.missed_votes"}, map[string]int64{"c08.votes": 5000, "c08.downtime_punishments": 10}, false)
	reg("C09", "one case = one generated history; non-trivial = a jailing or an unjail attempt occurred; distinct by hash of the request log",
		[]string{"c09.jailings", "c09.unjail_success", "c09.unjail_refused"}, map[string]int64{"c09.jailings": 10, "c09.unjail_refused": 10, "c09.jailed_checked": 50, "c09.unjail_exactly_at_jailed_until": 5, "c09.unjail_refused_one_second_early": 3, "c09.unjail_success": 10, "c09.tombstones": 3, "c09.unjail_refused_below_raised_minimum": 3, "c09.double_sign_while_already_jailed": 2}, false)
	reg("C10", "one case = one generated history; non-trivial = a block distributed non-zero fees or minted an award; distinct by hash of the request log",
		[]string{"c10.nonzero_fee_blocks", "c10.award_blocks"}, map[string]int64{"c10.nonzero_fee_blocks": 200, "c10.award_blocks": 100, "c10.fee_blocks_unknown_proposer": 10}, false)
	reg("C11", "one case = one generated history with hostile bytes and read-only traffic; non-trivial = contains a rejected DeliverTx or a read-only call; distinct by hash of the request log",
		[]string{"c11.rejected_delivers", "c11.readonly.query"}, map[string]int64{"c11.rejected_delivers": 500, "c11.readonly.query": 300, "c11.readonly.check": 100, "c11.twin.heights_compared": 500, "c11.twin.traceless_rejections_skipped": 500}, false)
	reg("C14", "one case = one generated history with store-key queries (with and without proof) issued at every call boundary, including between the transactions of a block; non-trivial = at least one proof verified; distinct by hash of the request log",
		[]string{"c14.proofs_verified"}, map[string]int64{"c14.proofs_verified": 300, "c14.queries.pruned": 100, "c14.queries.future": 100, "c14.absent_keys": 200, "c14.queries_inside_block": 500, "c14.queries_on_key_with_pending_write": 10, "c14.proofs_cross_checked": 300}, false)
	reg("C17", "one case = one generated history with governance traffic; non-trivial = at least one governance message was judged; distinct by hash of the request log",
		[]string{"c17.gov_success", "c17.gov_rejected", "c17.dao_rejected"}, map[string]int64{"c17.param_changes": 50, "c17.gov_rejected_non_owner": 30, "c17.dao_success.dao_transfer": 10}, false)
}

func raceSlice() bool { return osGetenv("VCHECK_RACE_SLICE") == "true" }
