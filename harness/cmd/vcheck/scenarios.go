package main

import (
	"os"

	"verif/harness/sim"
)

func osGetenv(k string) string { return os.Getenv(k) }

// scenarioFor returns a deterministic script for some case indices (coverage guarantees), nil otherwise.
func scenarioFor(prop string, i int, r *sim.Rand) func(w *sim.World) {
	return nil
}
