package main

import (
	"math/big"
	"os"
	"time"

	"verif/harness/sim"

	sdk "github.com/pokt-network/posmint/types"
	govTypes "github.com/pokt-network/posmint/x/gov/types"
	posTypes "github.com/pokt-network/posmint/x/pos/types"
)

func osGetenv(k string) string { return os.Getenv(k) }

// Scenario scripts steer the random walk through sequences that need several specific steps in a row.
// They only *queue* transactions / votes / time steps; everything else in those blocks stays random,
// and all judging is done by the same monitors.

func stakeTx(w *sim.World, a *sim.Actor, amt int64) func() *sim.TxSpec {
	return func() *sim.TxSpec { return w.Honest(a, posTypes.MsgStake{PubKey: a.Pub, Value: sdk.NewInt(amt)}) }
}
func unstakeTx(w *sim.World, a *sim.Actor) func() *sim.TxSpec {
	return func() *sim.TxSpec { return w.Honest(a, posTypes.MsgBeginUnstake{Address: a.Addr}) }
}
func unjailTx(w *sim.World, a *sim.Actor) func() *sim.TxSpec {
	return func() *sim.TxSpec { return w.Honest(a, posTypes.MsgUnjail{ValidatorAddr: a.Addr}) }
}

func val(w *sim.World, a *sim.Actor) *sim.ValView { return w.View().Vals[a.AddrHex()] }

// freeActor picks an ed25519 actor that is not a validator, not the anchor and not a governance key.
func freeActor(w *sim.World, skip int) *sim.Actor {
	for i := 1; i < len(w.Eds)-2; i++ {
		a := w.Eds[i]
		if _, ok := w.View().Vals[a.AddrHex()]; !ok {
			if skip == 0 {
				return a
			}
			skip--
		}
	}
	return nil
}

// scJailRestakeUnjail: stake exactly the minimum -> miss every vote until jailed (the downtime slash drops the
// stake below the minimum: forced unstake while jailed) -> stake again -> unjail one second early, on time, late.
func scJailRestakeUnjail(w *sim.World) {
	v := freeActor(w, 0)
	if v == nil {
		w.Run()
		return
	}
	cp := sim.ParamsOf(w.View())
	w.Reserved[v.AddrHex()] = true
	defer delete(w.Reserved, v.AddrHex())
	w.Force("stake-min", stakeTx(w, v, cp.Min))
	if !w.Block() {
		return
	}
	w.MissOverride[v.AddrHex()] = 100
	var jailTime time.Time
	for i := int64(0); i < cp.Window+8; i++ {
		w.Step(1 + int64(i%3))
		if !w.Block() {
			return
		}
		if x := val(w, v); x != nil && x.Jailed {
			jailTime = w.Now
			break
		}
	}
	delete(w.MissOverride, v.AddrHex())
	x := val(w, v)
	if x == nil || !x.Jailed {
		w.Run()
		return
	}
	if x.Status == 0 {
		w.Force("restake-while-jailed", stakeTx(w, v, cp.Min))
		w.Step(1)
		if !w.Block() {
			return
		}
	}
	// immediately (too early), one second early, exactly on time, one second late
	w.Force("unjail-immediately", unjailTx(w, v))
	w.Step(1)
	if !w.Block() {
		return
	}
	target := jailTime.Add(cp.JailDur) // the script's own record of the jail expiry
	offs := []time.Duration{-time.Second, 0, time.Second}
	if ns := int64(target.Nanosecond()); ns > 0 {
		// block times with a sub-second part: strictly before the expiry but within the same second of the clock
		offs = []time.Duration{-time.Second, -time.Duration(1 + w.R.Int63n(ns)), -1, 0, 1}
	}
	for _, d := range offs {
		t := target.Add(d)
		if !t.After(w.Now) {
			continue
		}
		w.StepTo(t)
		w.Force("unjail-around-expiry", unjailTx(w, v))
		if !w.Block() {
			return
		}
		if x := val(w, v); x != nil && !x.Jailed {
			break
		}
	}
	delete(w.Reserved, v.AddrHex())
	w.Run()
}

// scUnstakeBurnRestake: begin-unstake -> burned below the minimum while unstaking (forced unstake) -> stake again ->
// begin-unstake again -> time passes the *first* completion time, then the second.
func scUnstakeBurnRestake(w *sim.World) {
	v := freeActor(w, 1)
	if v == nil {
		w.Run()
		return
	}
	cp := sim.ParamsOf(w.View())
	w.Reserved[v.AddrHex()] = true
	defer delete(w.Reserved, v.AddrHex())
	w.Force("stake", stakeTx(w, v, cp.Min+cp.Min/2))
	if !w.Block() {
		return
	}
	w.Step(5)
	w.Force("begin-unstake", unstakeTx(w, v))
	if !w.Block() {
		return
	}
	// a downstream module burns 100% of it while it is unstaking
	w.Env.A.Ext.Pending = append(w.Env.A.Ext.Pending, sim.ExtAction{Kind: "burn", Phase: "end", Addr: v.Addr, Severity: "1.0"})
	w.Step(5)
	if !w.Block() {
		return
	}
	w.Step(5)
	if !w.Block() {
		return
	}
	if x := val(w, v); x != nil && x.Status == 0 {
		w.Force("restake", stakeTx(w, v, cp.Min))
		w.Step(5)
		if !w.Block() {
			return
		}
		w.Step(int64(cp.Unstaking/time.Second) / 2)
		w.Force("begin-unstake-again", unstakeTx(w, v))
		if !w.Block() {
			return
		}
		// cross the first completion time (stale queue entry) but not the second
		w.Step(int64(cp.Unstaking/time.Second)/2 + 10)
		if !w.Block() {
			return
		}
	}
	delete(w.Reserved, v.AddrHex())
	w.Run()
}

// scUnstakeDowntimeRestake: stake just above the minimum -> miss every vote -> begin to unstake in the last block before the
// downtime punishment falls due -> the next BeginBlock slashes the unstaking validator (Tendermint still reports its vote)
// below the minimum: forced unstake of a validator that sits in the unstaking queue -> stake again -> begin to unstake
// again before the first completion time -> cross the first completion time but not the second: nothing may be paid.
func scUnstakeDowntimeRestake(w *sim.World) {
	v := freeActor(w, 1)
	if v == nil {
		w.Run()
		return
	}
	cp := sim.ParamsOf(w.View())
	w.Reserved[v.AddrHex()] = true
	defer delete(w.Reserved, v.AddrHex())
	w.Force("stake-min+1", stakeTx(w, v, cp.Min+1))
	if !w.Block() {
		return
	}
	w.MissOverride[v.AddrHex()] = 100
	begun := false
	var t1 time.Time
	for i := int64(0); i < cp.Window+12; i++ {
		w.Step(1 + i%2)
		if si := w.View().Sign[v.AddrHex()]; si != nil && !begun && w.Env.H+1 == si.Start+cp.Window {
			w.Force("begin-unstake-before-punishment", unstakeTx(w, v))
			begun = true
		}
		if !w.Block() {
			return
		}
		if x := val(w, v); begun && x != nil && x.Status == 1 && t1.IsZero() {
			t1 = x.Unstaking
		}
		if x := val(w, v); begun && x != nil && x.Status == 0 {
			break
		}
	}
	delete(w.MissOverride, v.AddrHex())
	if x := val(w, v); begun && x != nil && x.Status == 0 && !t1.IsZero() {
		w.Force("restake", stakeTx(w, v, cp.Min))
		w.Step(2)
		if !w.Block() {
			return
		}
		w.Step(int64(cp.Unstaking/time.Second) / 2)
		w.Force("begin-unstake-again", unstakeTx(w, v))
		if !w.Block() {
			return
		}
		// cross the first completion time (a stale queue entry would fire) but not the second
		if d := int64(t1.Sub(w.Now)/time.Second) + 1; d > 0 {
			w.Step(d)
			if !w.Block() {
				return
			}
		}
		w.Step(3)
		if !w.Block() {
			return
		}
	}
	delete(w.Reserved, v.AddrHex())
	w.Run()
}

// scBurnAndEvidence (burn and downtime punishment in one BeginBlock): a validator with a stake of twenty-odd power units
// misses every vote; the downstream module queues a burn in the last block before the downtime punishment falls due, so
// both settlements fall into one BeginBlock and each must be computed from the power the statement says (a double-sign
// conviction burns everything in this fork, so its order relative to a burn is invisible; the downtime slash is partial).
func scBurnAndEvidence(w *sim.World) {
	cp := sim.ParamsOf(w.View())
	var v *sim.Actor
	for skip := 0; skip < 6; skip++ {
		// an actor that can afford the stake
		if a := freeActor(w, skip); a != nil && w.View().Bal(a.AddrHex()).Cmp(big.NewInt(25000000+20*cp.Min)) > 0 {
			v = a
			break
		}
	}
	if v == nil {
		w.Run()
		return
	}
	w.Reserved[v.AddrHex()] = true
	defer delete(w.Reserved, v.AddrHex())
	stake := int64(20500000) + w.R.Int63n(400000)
	if stake < cp.Min {
		stake = 20*cp.Min + cp.Min/2
	}
	w.Force("stake-20-units", stakeTx(w, v, stake))
	if !w.Block() {
		return
	}
	w.MissOverride[v.AddrHex()] = 100
	queued := false
	for i := int64(0); i < cp.Window+12; i++ {
		w.Step(1 + i%3)
		if si := w.View().Sign[v.AddrHex()]; si != nil && !queued && w.Env.H+1 == si.Start+cp.Window {
			// executed in the EndBlock of the last block before the punishment falls due: the burn is settled in the
			// same BeginBlock as the downtime slash
			sev := []string{"0.1", "0.25", "0.5", "0.033"}[w.R.Intn(4)]
			w.Env.A.Ext.Pending = append(w.Env.A.Ext.Pending, sim.ExtAction{Kind: "burn", Phase: "end", Addr: v.Addr, Severity: sev})
			queued = true
		}
		if !w.Block() {
			return
		}
		if x := val(w, v); queued && x != nil && x.Jailed {
			break
		}
	}
	delete(w.MissOverride, v.AddrHex())
	delete(w.Reserved, v.AddrHex())
	w.Run()
}

// scJailRaiseUnjail: stake twice the minimum -> miss votes until jailed -> governance raises pos/StakeMinimum above the
// remaining stake -> unjail at the expiry (must be refused: below the minimum now in force) -> begin-unstake ->
// maturity (must still be paid out).
func scJailRaiseUnjail(w *sim.World) {
	v := freeActor(w, 0)
	if v == nil {
		w.Run()
		return
	}
	cp := sim.ParamsOf(w.View())
	w.Reserved[v.AddrHex()] = true
	defer delete(w.Reserved, v.AddrHex())
	w.Force("stake-2min", stakeTx(w, v, 2*cp.Min))
	if !w.Block() {
		return
	}
	w.MissOverride[v.AddrHex()] = 100
	var jailTime time.Time
	for i := int64(0); i < cp.Window+8; i++ {
		w.Step(1)
		if !w.Block() {
			return
		}
		if x := val(w, v); x != nil && x.Jailed {
			jailTime = w.Now
			break
		}
	}
	delete(w.MissOverride, v.AddrHex())
	x := val(w, v)
	if x == nil || !x.Jailed || x.Status != 2 {
		w.Run()
		return
	}
	if o := w.ParamOwner("pos/StakeMinimum"); o != nil {
		raised := 3 * cp.Min
		w.Force("raise-minimum", func() *sim.TxSpec {
			return w.Honest(o, govTypes.MsgChangeParam{FromAddress: o.Addr, ParamKey: "pos/StakeMinimum", ParamVal: sim.JSONOf(raised)})
		})
		w.Step(1)
		if !w.Block() {
			return
		}
	}
	target := jailTime.Add(cp.JailDur)
	if target.After(w.Now) {
		w.Step(int64(target.Sub(w.Now) / time.Second))
	}
	w.Force("unjail-below-raised-minimum", unjailTx(w, v))
	if !w.Block() {
		return
	}
	if x := val(w, v); x != nil && x.Status == 2 && !x.Jailed {
		// (only if the minimum could not be raised) it is back in the set
		delete(w.Reserved, v.AddrHex())
		w.Run()
		return
	}
	delete(w.Reserved, v.AddrHex())
	w.Run()
}

// scShortenUnstakingTime: X begins unstaking under a long UnstakingTime -> governance shortens it -> Y begins unstaking
// (its completion time is earlier than X's, which is already queued) -> time passes Y's completion: Y is paid, X is not.
func scShortenUnstakingTime(w *sim.World) {
	x, y := freeActor(w, 0), freeActor(w, 1)
	o := w.ParamOwner("pos/UnstakingTime")
	if x == nil || y == nil || o == nil {
		w.Run()
		return
	}
	cp := sim.ParamsOf(w.View())
	for _, a := range []*sim.Actor{x, y} {
		w.Reserved[a.AddrHex()] = true
		defer delete(w.Reserved, a.AddrHex())
	}
	setU := func(d time.Duration) {
		w.Force("set-unstaking-time", func() *sim.TxSpec {
			return w.Honest(o, govTypes.MsgChangeParam{FromAddress: o.Addr, ParamKey: "pos/UnstakingTime", ParamVal: sim.JSONOf(d)})
		})
	}
	setU(24 * time.Hour)
	w.Force("stake-x", stakeTx(w, x, 2*cp.Min))
	w.Force("stake-y", stakeTx(w, y, 3*cp.Min))
	if !w.Block() {
		return
	}
	w.Step(5)
	w.Force("x-begin-unstake", unstakeTx(w, x))
	if !w.Block() {
		return
	}
	w.Step(5)
	setU(2 * time.Minute)
	if !w.Block() {
		return
	}
	w.Step(5)
	w.Force("y-begin-unstake", unstakeTx(w, y))
	if !w.Block() {
		return
	}
	for _, d := range []int64{119, 1, 1, 30} { // one second before, exactly at, after Y's completion
		w.Step(d)
		if !w.Block() {
			return
		}
	}
	delete(w.Reserved, x.AddrHex())
	delete(w.Reserved, y.AddrHex())
	w.Run()
}

// scAllMissUntilJailed: every validator of Tendermint's set misses every vote from the same block on, so all of them
// cross the downtime threshold in the same BeginBlock: nobody staked and unjailed is left.
func scAllMissUntilJailed(w *sim.World) {
	cp := sim.ParamsOf(w.View())
	if !w.Block() {
		return
	}
	for a := range w.View().Vals {
		w.MissOverride[a] = 100
	}
	w.AnchorMayMiss = true
	for i := int64(0); i < 2*cp.Window+10 && !w.Env.Dead; i++ {
		w.Step(1)
		if !w.Block() {
			return
		}
	}
	w.Run()
}

// scWhaleStakeUnstake: an account that owns more than 2^63 tokens stakes an amount around 2^63, begins unstaking and
// the unstaking period passes.
func scWhaleStakeUnstake(w *sim.World) {
	a := w.WhaleActor
	if a == nil {
		w.Run()
		return
	}
	cp := sim.ParamsOf(w.View())
	amts := []string{"4611686018427387904", "9223372036854775807", "9223372036854775808", "9223372036854775809", "18446744073709551616", "9223372036854775806999999"}
	amt, _ := sdk.NewIntFromString(amts[int(w.R.Intn(len(amts)))])
	w.Reserved[a.AddrHex()] = true
	defer delete(w.Reserved, a.AddrHex())
	w.Force("whale-stake", func() *sim.TxSpec { return w.Honest(a, posTypes.MsgStake{PubKey: a.Pub, Value: amt}) })
	if !w.Block() {
		return
	}
	w.Step(5)
	w.Force("whale-begin-unstake", unstakeTx(w, a))
	if !w.Block() {
		return
	}
	w.Step(int64(cp.Unstaking/time.Second) + 1)
	if !w.Block() {
		return
	}
	w.Step(5)
	if !w.Block() {
		return
	}
	delete(w.Reserved, a.AddrHex())
	w.Run()
}

// scenarioFor returns a deterministic script for some case indices (coverage guarantees) together with the
// parameter constraints the script needs, nil otherwise.
func scenarioFor(prop string, i int, r *sim.Rand) (func(w *sim.World), func(p *sim.Profile)) {
	switch prop {
	case "C05", "C06", "C07", "C08", "C09", "C04", "C02":
		switch i % 8 {
		case 1:
			return scJailRestakeUnjail, func(p *sim.Profile) {
				// the validator must be in Tendermint's set, downtime must be reachable and must burn something
				p.CustomPos = true
				if p.Pos.SignedBlocksWindow == 0 {
					p.Pos = sim.SmallWindowPos(r)
				}
				p.Pos.MaxValidators = 100000
				p.Pos.MinSignedPerWindow = sdk.NewDecWithPrec(5, 1)
				p.Pos.SlashFractionDowntime = []sdk.Dec{sdk.NewDecWithPrec(1, 2), sdk.NewDecWithPrec(5, 1), sdk.NewDecWithPrec(1, 1)}[i/8%3]
				p.Pos.DowntimeJailDuration = time.Duration([]int64{60, 120, 600}[i/8%3]) * time.Second
				p.SubSecond = i/8%2 == 1 // block times with nanoseconds: the expiry is approached within its own second
			}
		case 6:
			if prop == "C06" {
				return scWhaleStakeUnstake, func(p *sim.Profile) {
					p.Whale = true
					p.CustomPos = true
					if p.Pos.SignedBlocksWindow == 0 {
						p.Pos = sim.SmallWindowPos(r)
					}
					p.Pos.UnstakingTime = 10 * time.Minute
				}
			}
			if prop == "C05" && i%16 == 6 {
				return scAllMissUntilJailed, func(p *sim.Profile) {
					p.CustomPos = true
					if p.Pos.SignedBlocksWindow == 0 {
						p.Pos = sim.SmallWindowPos(r)
					}
					p.Pos.MinSignedPerWindow = sdk.NewDecWithPrec(5, 1)
					p.Pos.MaxValidators = 100000
					p.EvidencePct, p.BurnPct = 0, 0
				}
			}
		case 7:
			if prop == "C07" || prop == "C04" {
				return scBurnAndEvidence, func(p *sim.Profile) {
					p.CustomPos = true
					if p.Pos.SignedBlocksWindow == 0 {
						p.Pos = sim.SmallWindowPos(r)
					}
					p.Pos.MaxValidators = 100000
					p.Pos.SlashFractionDowntime = []sdk.Dec{sdk.NewDecWithPrec(5, 2), sdk.NewDecWithPrec(1, 1), sdk.NewDecWithPrec(25, 2)}[i/8%3]
					p.Pos.MinSignedPerWindow = sdk.NewDecWithPrec(5, 1)
					p.FatalEvPct, p.OldEvPct, p.NearOldEvPct = 0, 0, 0
					wt := map[string]int{}
					for k, v := range p.W {
						wt[k] = v
					}
					wt["govparam"], wt["acl"] = 0, 0
					p.W = wt
				}
			}
			if prop != "C06" {
				break
			}
			return scShortenUnstakingTime, func(p *sim.Profile) {
				p.NSecp = 1 // no multisig actors: the parameter's owner is the plain governance key, funded from genesis
				p.CustomPos = true
				if p.Pos.SignedBlocksWindow == 0 {
					p.Pos = sim.SmallWindowPos(r)
				}
				p.Pos.MaxValidators = 100000
			}
		case 5:
			if prop != "C09" && prop != "C06" && prop != "C05" {
				break
			}
			return scJailRaiseUnjail, func(p *sim.Profile) {
				p.CustomPos = true
				if p.Pos.SignedBlocksWindow == 0 {
					p.Pos = sim.SmallWindowPos(r)
				}
				p.MinStakeRaises = true
				p.Pos.MaxValidators = 100000
				p.Pos.MinSignedPerWindow = sdk.NewDecWithPrec(5, 1)
				p.Pos.SlashFractionDowntime = sdk.NewDecWithPrec(1, 2)
				p.Pos.DowntimeJailDuration = time.Duration([]int64{60, 120, 600}[i/8%3]) * time.Second
			}
		case 3:
			if i/8%3 != 2 {
				return scUnstakeDowntimeRestake, func(p *sim.Profile) {
					p.CustomPos = true
					if p.Pos.SignedBlocksWindow == 0 {
						p.Pos = sim.SmallWindowPos(r)
					}
					p.Pos.MaxValidators = 100000
					p.Pos.MinSignedPerWindow = sdk.NewDecWithPrec(5, 1)
					p.Pos.SlashFractionDowntime = sdk.NewDecWithPrec(1, 2)
					p.Pos.DowntimeJailDuration = 60 * time.Second
					p.Pos.UnstakingTime = time.Duration([]int64{600, 3600}[i/8%2]) * time.Second
					// the script depends on the window, the fraction and the minimum: no parameter changes in these histories
					wt := map[string]int{}
					for k, v := range p.W {
						wt[k] = v
					}
					wt["govparam"], wt["acl"] = 0, 0
					p.W = wt
				}
			}
			return scUnstakeBurnRestake, func(p *sim.Profile) {
				p.CustomPos = true
				if p.Pos.SignedBlocksWindow == 0 {
					p.Pos = sim.SmallWindowPos(r)
				}
				p.Pos.UnstakingTime = time.Duration([]int64{600, 3600}[i/8%2]) * time.Second
			}
		}
	}
	return nil, nil
}
