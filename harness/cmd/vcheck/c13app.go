package main

import (
	"bytes"
	"fmt"

	abci "github.com/tendermint/tendermint/abci/types"
	dbm "github.com/tendermint/tm-db"

	"verif/harness/sim"
	"verif/harness/storechk"
)

// Application-level C13: a generated block history is executed once without faults (reference), then for every
// block h and every durable database write i issued inside app.Commit() of block h the process is "killed"
// before that write; a new application instance opens the surviving bytes, is judged, and the Tendermint
// handshake replays the missing block.

type commitRec struct {
	hash []byte
	raw  sim.Raw
	snap *dbm.MemDB
	ops  int
}

type c13Recorder struct {
	cdb   *storechk.CrashDB
	base  *dbm.MemDB
	recs  map[int64]*commitRec
	pre   int
	codes map[int64][]uint32 // DeliverTx result codes of the uninterrupted run, per block
}

func (m *c13Recorder) OnCall(e *sim.Env, c *sim.Call) {
	if c.Kind == "deliver" {
		if m.codes == nil {
			m.codes = map[int64][]uint32{}
		}
		m.codes[c.H] = append(m.codes[c.H], c.ResDeliver.Code)
	}
	if c.Kind == "end" {
		m.pre = m.cdb.Ops
	}
	if c.Kind == "commit" && c.Panic == "" {
		m.recs[c.H] = &commitRec{hash: c.ResCommit.Data, raw: c.Post.Raw, snap: storechk.CopyMemDB(m.base), ops: m.cdb.Ops - m.pre}
	}
}

func diffRawBrief(a, b sim.Raw) string {
	d := sim.DiffRaw(a, b)
	if len(d) == 0 {
		return ""
	}
	return fmt.Sprintf("%d keys differ, first: %s", len(d), d[0].String())
}

func runC13App(c *Ctx, caseID string, seed uint64, pruning *[2]int64) {
	idx := getIdx()
	idx.Reset()
	r := sim.NewRand(seed)
	p := baseProfile(r, r.Bool())
	p.Name = "c13-app"
	p.Blocks = 5 + r.Intn(4)
	p.Pruning = pruning
	p.ReadsPct, p.RestartPct, p.EvidencePct, p.ProbePct = 0, 0, 0, 0
	w := sim.NewWorld(seed, p, idx)
	base := dbm.NewMemDB()
	cdb := &storechk.CrashDB{DB: base}
	rec := &c13Recorder{cdb: cdb, base: base, recs: map[int64]*commitRec{}}
	w.Env.Monitors = []sim.Monitor{rec}
	if ic := w.Start(cdb); ic.Panic != "" {
		return
	}
	w.Run()
	log := w.Env.Log
	spec := w.Env.Init
	H := w.Env.H
	if osGetenv("VCHECK_TRACE") != "" {
		fmt.Printf("c13app %s: H=%d dead=%v %s\n", caseID, H, w.Env.Dead, w.Env.DeathNote)
	}
	kr := int64(0)
	if pruning != nil {
		kr = pruning[0]
	}
	rep := &caseReporter{c: c, caseID: caseID, replay: map[string]interface{}{"app_level": true, "seed": seed, "pruning": pruning}}
	// entries of each block
	blockEntries := map[int64][]sim.LogEntry{}
	for _, le := range log {
		switch le.Kind {
		case "begin", "deliver", "end", "commit":
			blockEntries[le.Height] = append(blockEntries[le.Height], le)
		}
	}
	replayBlock := func(e *sim.Env, h int64, withCommit bool) {
		for _, le := range blockEntries[h] {
			if le.Kind == "commit" && !withCommit {
				continue
			}
			e.Replay(e.DB, []sim.LogEntry{le})
		}
	}
	for h := int64(1); h <= H; h++ {
		ref := rec.recs[h]
		if ref == nil {
			continue
		}
		idx.SetLimit(true, h-1) // the tx index knows nothing of block h while it is (re-)executed
		for i := 1; i <= ref.ops; i++ {
			c.Res.count("c13.app.crash_points", 1)
			var db *dbm.MemDB
			if h == 1 {
				db = dbm.NewMemDB()
			} else {
				db = storechk.CopyMemDB(rec.recs[h-1].snap)
			}
			cr := &storechk.CrashDB{DB: db}
			e := sim.NewEnv(idx)
			e.NoSnap, e.NoChain = true, true
			if h == 1 {
				e.InitChain(cr, spec)
			} else {
				e.DB, e.Init = cr, spec
				a, err := e.Reopen()
				if err != nil {
					rep.Violate("C13", "harness-reopen", fmt.Sprintf("clean snapshot of height %d does not open: %v", h-1, err))
					break
				}
				e.A, e.H = a, h-1
			}
			replayBlock(e, h, false)
			if e.Dead {
				break
			}
			cr.Ops, cr.CrashAt = 0, i
			crashed := false
			func() {
				defer func() {
					if rr := recover(); rr != nil {
						crashed = true
					}
				}()
				e.A.Commit()
			}()
			if !crashed {
				rep.Violate("C13", "harness-no-crash", fmt.Sprintf("app commit %d did not reach write %d", h, i))
				continue
			}
			class := "height>1"
			if h == 1 {
				class = "height=1"
			}
			where := fmt.Sprintf("application level: crash before durable write %d/%d of Commit of block %d, pruning %v", i, ref.ops, h, pruning)
			// a new process
			e2 := sim.NewEnv(idx)
			e2.NoSnap, e2.NoChain = true, true
			e2.DB, e2.Init = db, spec
			a2, err := e2.Reopen()
			if err != nil {
				c.Res.count("c13.app.outcome.reopen_error", 1)
				rep.Violate("C13", fmt.Sprintf("reopen-error/keepRecent=%d/%s", kr, class), fmt.Sprintf("%s: the application cannot be reopened: %v", where, err))
				continue
			}
			info := a2.Info(abci.RequestInfo{})
			var prevHash []byte
			var prevRaw sim.Raw
			if h > 1 {
				prevHash, prevRaw = rec.recs[h-1].hash, rec.recs[h-1].raw
			} else {
				prevRaw = sim.Raw{}
			}
			switch {
			case info.LastBlockHeight == h-1 && bytes.Equal(info.LastBlockAppHash, prevHash):
				c.Res.count("c13.app.outcome.previous_version", 1)
				got := a2.DumpRaw()
				same := true
				for _, sn := range sim.StoreNames {
					if len(prevRaw[sn]) != len(got[sn]) {
						same = false
					}
				}
				if d := diffRawBrief(prevRaw, got); d != "" || !same {
					rep.Violate("C13", "mixture/"+class, fmt.Sprintf("%s: reopened at height %d but the state is not that height's: %s", where, h-1, d))
					continue
				}
			case info.LastBlockHeight == h && bytes.Equal(info.LastBlockAppHash, ref.hash):
				c.Res.count("c13.app.outcome.new_version", 1)
				if d := diffRawBrief(ref.raw, a2.DumpRaw()); d != "" {
					rep.Violate("C13", "mixture/"+class, fmt.Sprintf("%s: reopened at height %d but the state is not that height's: %s", where, h, d))
				}
				continue
			default:
				rep.Violate("C13", "reopen-wrong-commitid/"+class, fmt.Sprintf("%s: Info reports height %d hash %X", where, info.LastBlockHeight, info.LastBlockAppHash))
				continue
			}
			// Tendermint handshake: replay the interrupted block
			e2.A, e2.H = a2, h-1
			if h == 1 {
				e2.InitChain(db, spec)
			}
			var tr *codeTrace
			if osGetenv("VCHECK_TRACE") != "" {
				tr = &codeTrace{}
				e2.Monitors = append(e2.Monitors, tr)
			}
			replayBlock(e2, h, true)
			if tr != nil && h > 1 && len(tr.logs) > 0 {
				fmt.Printf("   re-executed codes of block %d (crash point %d): %v last: %s\n", h, i, tr.codes, tr.logs[len(tr.logs)-1])
			}
			if e2.Dead {
				rep.Violate("C13", "replay-dies/"+class, fmt.Sprintf("%s: re-executing the block kills the node: %s", where, e2.DeathNote))
				continue
			}
			got := e2.A.Info(abci.RequestInfo{})
			if got.LastBlockHeight != h || !bytes.Equal(got.LastBlockAppHash, ref.hash) {
				if osGetenv("VCHECK_TRACE") != "" {
					fmt.Printf("   uninterrupted codes of block %d: %v\n", h, rec.codes[h])
					seen := map[string]int{}
					for _, le := range blockEntries[h] {
						if le.Kind == "deliver" {
							seen[string(le.Tx)]++
							fmt.Printf("   block %d deliver %s (copy %d of these bytes in this block)\n", h, le.Label, seen[string(le.Tx)])
						}
					}
				}
				content := "the store content is the same (the difference is in the tree structure / node versions)"
				if d := diffRawBrief(ref.raw, e2.A.DumpRaw()); d != "" {
					content = "store content: " + d
				}
				rep.Violate("C13", "replay-hash-differs/"+class, fmt.Sprintf("%s: re-executed block gives height %d hash %X, the uninterrupted run %X; %s", where, got.LastBlockHeight, got.LastBlockAppHash, ref.hash, content))
				continue
			}
			c.Res.count("c13.app.replays_ok", 1)
		}
	}
	idx.SetLimit(false, 0)
}

type codeTrace struct {
	codes []uint32
	logs  []string
}

func (t *codeTrace) OnCall(e *sim.Env, c *sim.Call) {
	if c.Kind == "deliver" {
		t.codes = append(t.codes, c.ResDeliver.Code)
		l := c.ResDeliver.Log
		if len(l) > 160 {
			l = l[:160]
		}
		t.logs = append(t.logs, c.Entry.Label+": "+l)
	}
}
