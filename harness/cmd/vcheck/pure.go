package main

import (
	"encoding/json"
	"fmt"

	dbm "github.com/tendermint/tm-db"

	"verif/harness/codecchk"
	"verif/harness/cryptochk"
	"verif/harness/numchk"
	"verif/harness/sim"

	"github.com/pokt-network/posmint/codec"
)

type pureCase struct {
	Kind string `json:"kind"`
	Seed uint64 `json:"seed"`
}

func runPure(kind string, seed uint64, rep *caseReporter) {
	r := sim.NewRand(seed)
	switch kind {
	case "int":
		numchk.CheckInt(r, rep)
	case "uint":
		numchk.CheckUint(r, rep)
	case "dec":
		numchk.CheckDec(r, rep)
	case "coins":
		numchk.CheckCoins(r, rep)
	case "deccoins":
		numchk.CheckDecCoins(r, rep)
	case "extra":
		numchk.CheckExtra(r, rep)
	}
}

func runC18(c *Ctx) {
	n := 4000000
	if !c.Quick() {
		n = 40000000
	}
	master := sim.NewRand(c.Seed ^ hashStr("C18"))
	kinds := []string{"int", "uint", "dec", "dec", "dec", "coins", "coins", "deccoins", "extra", "extra"}
	per := n / c.Of
	for i := 0; i < per; i++ {
		seed := master.U64() ^ uint64(c.Shard)*0x9E3779B97F4A7C15
		kind := kinds[i%len(kinds)]
		pc := pureCase{Kind: kind, Seed: seed}
		rep := &caseReporter{c: c, caseID: fmt.Sprintf("%s-%d-%d", kind, c.Shard, i), replay: pc}
		runPure(kind, seed, rep)
		c.Res.Cases++
		// distinctness: operand tuples are determined by the 64-bit sub-seed; count distinct sub-seeds
		if i < 2000 || i%64 == 0 {
			c.Nontrivial(fmt.Sprintf("%s-%d", kind, seed))
		}
		if i < 3 {
			c.Sample(map[string]interface{}{"kind": kind, "subseed": seed, "note": "operands are a deterministic function of the sub-seed (boundary-biased generator, see numchk/num.go)"})
		}
	}
}

func replayC18(c *Ctx, raw json.RawMessage) {
	var pc pureCase
	if json.Unmarshal(raw, &pc) == nil {
		runPure(pc.Kind, pc.Seed, &caseReporter{c: c, caseID: "replay", replay: pc})
	}
}

func init() {
	register(&PropDef{ID: "C18", Level: "exploration", Workers: workersFor(8, 16), Run: runC18, Replay: replayC18,
		Rule:   "one case = one operand tuple (boundary-biased: 0, +-1, 10^k, 2^k, 2^255-1, 2^255, 2^256-1, rounding ties at the 18th and at the 36th digit, overflow bound +-1, mixed signs, uniformly random bit lengths) pushed through one Int/Uint/Dec operation or the whole Coins API and compared with math/big; distinct_nontrivial counts distinct 64-bit sub-seeds on a 1/64 sample plus the first 2000 per worker (a lower bound, every case is non-trivial)",
		Floors: map[string]int64{"c18.dec.Quo": 5000, "c18.dec.directed_36th_digit_cases": 1000, "c18.int.expected_panics": 1000, "c18.coins.cases": 50000, "c18.dec.expected_panics": 100, "c18.deccoins.cases": 20000},
		Assume: []string{"math/big is exact", "Int.Mod is judged as a non-negative residue (Euclidean), Int.Quo as truncation, as their doc comments say"}})
}

// ---- C19 ----------------------------------------------------------------------------------------

func runC19(c *Ctx) {
	nsig := 60000
	kbProgs, kbOps := 16, 40
	if !c.Quick() {
		nsig, kbProgs, kbOps = 2000000, 16*8, 300
	}
	master := sim.NewRand(c.Seed ^ hashStr("C19"))
	per := nsig / c.Of
	for i := 0; i < per; i++ {
		seed := master.U64() ^ uint64(c.Shard)*0x9E3779B97F4A7C15
		rep := &caseReporter{c: c, caseID: fmt.Sprintf("sig-%d-%d", c.Shard, i), replay: pureCase{Kind: "sig", Seed: seed}}
		cryptochk.CheckSignatures(sim.NewRand(seed), rep)
		c.Res.Cases++
		if i < 2000 || i%16 == 0 {
			c.Nontrivial(fmt.Sprintf("sig-%d", seed))
		}
		if i == 0 {
			c.Sample(map[string]interface{}{"kind": "signature batch", "subseed": seed, "note": "one batch = honest + 10 negative single-key cases + 12 multisignature cases over keys and messages derived from the sub-seed"})
		}
	}
	km := sim.NewRand(c.Seed ^ hashStr("C19kb"))
	for i := 0; i < kbProgs; i++ {
		r := km.Split(uint64(i))
		if !c.Mine(i) {
			continue
		}
		seed := r.U64()
		lazy := i%4 == 3
		rep := &caseReporter{c: c, caseID: fmt.Sprintf("kb-%d", i), replay: map[string]interface{}{"kind": "keybase", "seed": seed, "ops": kbOps, "lazy": lazy}}
		cryptochk.RunKeybase(sim.NewRand(seed), kbOps, lazy, rep)
		c.Res.Cases++
		c.Nontrivial(fmt.Sprintf("kb-%d", seed))
		// armor round trips of keys of every type and shape (a handful per keybase program: each costs three scrypt runs)
		for j := 0; j < 6; j++ {
			aseed := r.U64()
			arep := &caseReporter{c: c, caseID: fmt.Sprintf("armor-%d-%d", i, j), replay: map[string]interface{}{"kind": "armor", "seed": aseed}}
			cryptochk.CheckArmor(sim.NewRand(aseed), arep)
			c.Res.Cases++
		}
		if i == 0 {
			c.Sample(map[string]interface{}{"kind": "keybase program", "subseed": seed, "ops": kbOps, "lazy_goleveldb": lazy})
		}
	}
}

func replayC19(c *Ctx, raw json.RawMessage) {
	var x struct {
		Kind string `json:"kind"`
		Seed uint64 `json:"seed"`
		Ops  int    `json:"ops"`
		Lazy bool   `json:"lazy"`
	}
	json.Unmarshal(raw, &x)
	rep := &caseReporter{c: c, caseID: "replay", replay: raw}
	if x.Kind == "keybase" {
		cryptochk.RunKeybase(sim.NewRand(x.Seed), x.Ops, x.Lazy, rep)
	} else if x.Kind == "armor" {
		cryptochk.CheckArmor(sim.NewRand(x.Seed), rep)
	} else {
		cryptochk.CheckSignatures(sim.NewRand(x.Seed), rep)
	}
}

// ---- C20 ----------------------------------------------------------------------------------------

func runC20(c *Ctx) {
	n := 1200000
	if !c.Quick() {
		n = 20000000
	}
	cdc := sim.MakeCodec()
	master := sim.NewRand(c.Seed ^ hashStr("C20"))
	per := n / c.Of
	// an application instance receives every hostile byte string at its ABCI entry points
	idx := getIdx()
	w := sim.NewWorld(c.Seed^uint64(c.Shard), sim.DefaultProfile(), idx)
	w.Env.NoSnap = true
	w.Start(dbm.NewMemDB())
	appCalls := 0
	for i := 0; i < per; i++ {
		seed := master.U64() ^ uint64(c.Shard)*0x9E3779B97F4A7C15
		g := &codecchk.Gen{R: sim.NewRand(seed), Seed: seed % 7}
		kind := []string{"roundtrip", "roundtrip", "signbytes", "hostile", "hostile", "keys", "numbers"}[i%7]
		rep := &caseReporter{c: c, caseID: fmt.Sprintf("%s-%d-%d", kind, c.Shard, i), replay: pureCase{Kind: kind, Seed: seed}}
		runC20Case(cdc, kind, g, rep, func(bz []byte) {
			// liveness at the ABCI boundary: every 8th hostile input goes through CheckTx / DeliverTx / simulate
			if bz == nil || i%56 != 3 || w.Env.Dead {
				return
			}
			appCalls++
			if !w.Env.InBlock {
				w.Env.BeginBlock(&sim.BeginSpec{Height: w.Env.H + 1, Time: sim.GenesisTime.Unix() + w.Env.H + 1, Proposer: w.Anchor.AddrHex()}, nil)
			}
			for _, call := range []*sim.Call{w.Env.CheckTx(bz, "hostile", nil), w.Env.DeliverTx(bz, "hostile", nil),
				w.Env.Query(&sim.QuerySpec{Path: "/app/simulate", Data: fmt.Sprintf("%x", bz)})} {
				if call.Panic != "" {
					rep.Violate("C20", "abci-panic/"+call.Kind, fmt.Sprintf("%s on hostile bytes %x panicked out of the application: %s", call.Kind, bz, firstLine(call.Panic)))
				}
			}
			c.Res.count("c20.hostile.abci_calls", 3)
			if appCalls%20 == 0 && !w.Env.Dead {
				w.Env.EndBlock(nil)
				w.Env.Commit()
			}
		})
		c.Res.Cases++
		if i < 2000 || i%64 == 0 {
			c.Nontrivial(fmt.Sprintf("%s-%d", kind, seed))
		}
		if i < 3 {
			c.Sample(map[string]interface{}{"kind": kind, "subseed": seed})
		}
	}
}

func runC20Case(cdc *codec.Codec, kind string, g *codecchk.Gen, rep *caseReporter, onHostile func([]byte)) {
	switch kind {
	case "roundtrip":
		codecchk.RoundTrip(cdc, g, rep)
	case "signbytes":
		codecchk.SignBytes(cdc, g, rep)
	case "hostile":
		bz := codecchk.HostileDecode(cdc, g, rep)
		if onHostile != nil {
			onHostile(bz)
		}
	case "keys":
		codecchk.Keys(g, rep)
	case "numbers":
		codecchk.HostileNumbers(cdc, g, rep)
		codecchk.SortJSON(g, rep)
		codecchk.HostileJSON(cdc, g, rep)
	}
}

func replayC20(c *Ctx, raw json.RawMessage) {
	var pc pureCase
	if json.Unmarshal(raw, &pc) == nil {
		g := &codecchk.Gen{R: sim.NewRand(pc.Seed), Seed: pc.Seed % 7}
		runC20Case(sim.MakeCodec(), pc.Kind, g, &caseReporter{c: c, caseID: "replay", replay: pc}, nil)
	}
}

func init() {
	register(&PropDef{ID: "C19", Level: "exploration", Workers: workersFor(8, 16), Run: runC19, Replay: replayC19,
		Rule:   "signature cases: one case = one batch over fresh keys (ed25519/secp256k1, 2-4 key multisignature incl. nested) and a message of 0 B..64 KiB, judged against harness ground truth and an independent primitive; keybase: one case = one program of create/import/export/update/delete/sign/list operations with right and wrong passphrases (empty, unicode, 1 KiB) against a model; distinct by sub-seed (lower bound, sampled)",
		Floors: map[string]int64{"c19.sig.cases": 100000, "c19.multisig.cases": 100000, "c19.kb.ops": 400, "c19.kb.wrong_pass": 30, "c19.kb.export_import_roundtrips": 10},
		Assume: []string{"crypto/ed25519 (Go standard library) and btcec are correct", "signature malleability (another byte string verifying for the same key and message) is counted, not judged"}})
	register(&PropDef{ID: "C20", Level: "exploration", Workers: workersFor(8, 16), Run: runC20, Replay: replayC20,
		Rule:   "one case = one generated value of a wire/storage type round-tripped through amino binary and JSON, or one transaction whose sign bytes are compared across encodings and under single-field changes, or one mutated/random byte string offered to the tx decoder (and, sampled, to CheckTx/DeliverTx/simulate of a live application), or one pair of composite store keys compared with their source tuples; distinct by sub-seed (lower bound, sampled)",
		Floors: map[string]int64{"c20.roundtrip.StdTx": 10000, "c20.signbytes.field_mutations": 50000, "c20.hostile.decodes": 50000, "c20.hostile.accepted": 1000, "c20.keys.cases": 20000, "c20.hostile.abci_calls": 1000},
		Assume: []string{"decoders of trusted store bytes may panic inside Must* helpers by design; the no-crash clause is judged on the tx decoder and the ABCI entry points"}})
}
