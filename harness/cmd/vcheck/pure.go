package main

import (
	"encoding/json"
	"fmt"

	"verif/harness/numchk"
	"verif/harness/sim"
)

type pureCase struct {
	Kind string `json:"kind"`
	Seed uint64 `json:"seed"`
}

func runPure(kind string, seed uint64, rep *caseReporter) {
	r := sim.NewRand(seed)
	switch kind {
	case "int":
		numchk.CheckInt(r, rep)
	case "uint":
		numchk.CheckUint(r, rep)
	case "dec":
		numchk.CheckDec(r, rep)
	case "coins":
		numchk.CheckCoins(r, rep)
	}
}

func runC18(c *Ctx) {
	n := 400000
	if !c.Quick() {
		n = 40000000
	}
	master := sim.NewRand(c.Seed ^ hashStr("C18"))
	kinds := []string{"int", "uint", "dec", "dec", "dec", "coins", "coins"}
	per := n / c.Of
	for i := 0; i < per; i++ {
		seed := master.U64() ^ uint64(c.Shard)*0x9E3779B97F4A7C15
		kind := kinds[i%len(kinds)]
		pc := pureCase{Kind: kind, Seed: seed}
		rep := &caseReporter{c: c, caseID: fmt.Sprintf("%s-%d-%d", kind, c.Shard, i), replay: pc}
		runPure(kind, seed, rep)
		c.Res.Cases++
		// distinctness: operand tuples are determined by the 64-bit sub-seed; count distinct sub-seeds
		if i < 2000 || i%64 == 0 {
			c.Nontrivial(fmt.Sprintf("%s-%d", kind, seed))
		}
		if i < 3 {
			c.Sample(map[string]interface{}{"kind": kind, "subseed": seed, "note": "operands are a deterministic function of the sub-seed (boundary-biased generator, see numchk/num.go)"})
		}
	}
}

func replayC18(c *Ctx, raw json.RawMessage) {
	var pc pureCase
	if json.Unmarshal(raw, &pc) == nil {
		runPure(pc.Kind, pc.Seed, &caseReporter{c: c, caseID: "replay", replay: pc})
	}
}

func init() {
	register(&PropDef{ID: "C18", Level: "exploration", Workers: workersFor(8, 16), Run: runC18, Replay: replayC18,
		Rule:   "one case = one operand tuple (boundary-biased: 0, +-1, 10^k, 2^k, 2^255-1, 2^255, 2^256-1, rounding ties at the 18th and at the 36th digit, overflow bound +-1, mixed signs, uniformly random bit lengths) pushed through one Int/Uint/Dec operation or the whole Coins API and compared with math/big; distinct_nontrivial counts distinct 64-bit sub-seeds on a 1/64 sample plus the first 2000 per worker (a lower bound, every case is non-trivial)",
		Floors: map[string]int64{"c18.dec.Quo": 5000, "c18.dec.directed_36th_digit_cases": 1000, "c18.int.expected_panics": 1000, "c18.coins.cases": 50000, "c18.dec.expected_panics": 100},
		Assume: []string{"math/big is exact", "Int.Mod is judged as a non-negative residue (Euclidean), Int.Quo as truncation, as their doc comments say"}})
}
