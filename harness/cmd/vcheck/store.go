package main

import (
	"encoding/json"
	"fmt"
	"os"

	"verif/harness/sim"
	"verif/harness/storechk"
)

// caseReporter adapts a Ctx to storechk.Reporter for one case (the case payload is the replay artefact).
type caseReporter struct {
	c      *Ctx
	caseID string
	replay interface{}
	nviol  int
}

func (r *caseReporter) Violate(prop, sig, msg string) {
	r.nviol++
	r.c.Violation(prop, sig, msg, r.caseID, r.replay)
}
func (r *caseReporter) Count(k string, n int64) { r.c.Res.count(k, n) }

func runC12(c *Ctx) {
	n := 2000
	if !c.Quick() {
		n = 16 * 300
	}
	master := sim.NewRand(c.Seed ^ hashStr("C12"))
	for i := 0; i < n; i++ {
		r := master.Split(uint64(i))
		if !c.Mine(i) {
			continue
		}
		h := storechk.GenMSHist(r, c.Quick())
		if i%4 == 1 {
			storechk.AddLateStore(r, &h)
		}
		h.Ghost = r.Chance(30)
		h.PruneAfterLoad = r.Chance(20)
		c.Res.Cases++
		rep := &caseReporter{c: c, caseID: fmt.Sprintf("m%d", i), replay: h}
		storechk.RunC12On(&h, rep, i%16 == 7)
		bz, _ := json.Marshal(h)
		if len(h.Commits) > 3 {
			c.Nontrivial(string(bz))
		}
		c.Sample(map[string]interface{}{"stores": h.NStores, "pruning": h.Pruning, "commits": len(h.Commits), "reload_after": h.Reload, "first_commit_ops": h.Commits[0]})
	}
}

func replayMS(prop string) func(c *Ctx, raw json.RawMessage) {
	return func(c *Ctx, raw json.RawMessage) {
		var h storechk.MSHist
		if err := json.Unmarshal(raw, &h); err != nil {
			c.Res.Inconcl = append(c.Res.Inconcl, "bad replay: "+err.Error())
			return
		}
		var ap struct {
			App     bool      `json:"app_level"`
			Seed    uint64    `json:"seed"`
			Pruning *[2]int64 `json:"pruning"`
		}
		if json.Unmarshal(raw, &ap) == nil && ap.App {
			runC13App(c, "replay", ap.Seed, ap.Pruning)
			return
		}
		rep := &caseReporter{c: c, caseID: "replay", replay: h}
		if prop == "C12" {
			storechk.RunC12(&h, rep)
		} else {
			storechk.RunC13(&h, rep)
		}
	}
}

func runC13(c *Ctx) {
	na := 32
	if !c.Quick() {
		na = 16 * 24
	}
	am := sim.NewRand(c.Seed ^ hashStr("C13app"))
	prs := []*[2]int64{{0, 1}, {1, 2}, {100, 10000}, nil, {2, 3}, {5, 0}, {0, 3}, {3, 7}}
	for i := 0; i < na; i++ {
		r := am.Split(uint64(i))
		if !c.Mine(i) {
			continue
		}
		c.Res.Cases++
		seed := r.U64()
		runC13App(c, fmt.Sprintf("a%d", i), seed, prs[i%len(prs)])
		c.Nontrivial(fmt.Sprintf("app-%d-%d", seed, i%len(prs)))
	}
	n := 320
	if !c.Quick() {
		n = 16 * 200
	}
	master := sim.NewRand(c.Seed ^ hashStr("C13"))
	for i := 0; i < n; i++ {
		r := master.Split(uint64(i))
		if !c.Mine(i) {
			continue
		}
		h := storechk.GenMSHist(r, true)
		if len(h.Commits) > 14 {
			h.Commits = h.Commits[:14]
		}
		h.Reload = nil
		c.Res.Cases++
		rep := &caseReporter{c: c, caseID: fmt.Sprintf("m%d", i), replay: h}
		pts := storechk.RunC13(&h, rep)
		bz, _ := json.Marshal(h)
		if pts > 0 {
			c.Nontrivial(string(bz))
		}
		c.Sample(map[string]interface{}{"stores": h.NStores, "pruning": h.Pruning, "commits": len(h.Commits), "crash_points_enumerated": pts})
	}
	// the same judgement with real process death on a real on-disk database (GoLevelDB): a child process is
	// killed by SIGKILL right before a PRNG-chosen durable write of a PRNG-chosen Commit
	nd := 48
	if !c.Quick() {
		nd = 16 * 60
	}
	exe, err := os.Executable()
	if err != nil {
		c.Res.Inconcl = append(c.Res.Inconcl, "os.Executable: "+err.Error())
		return
	}
	dm := sim.NewRand(c.Seed ^ hashStr("C13disk"))
	for i := 0; i < nd; i++ {
		r := dm.Split(uint64(i))
		if !c.Mine(i) {
			continue
		}
		h := storechk.GenMSHist(r, true)
		if len(h.Commits) > 10 {
			h.Commits = h.Commits[:10]
		}
		h.Reload = nil
		c.Res.Cases++
		rep := &caseReporter{c: c, caseID: fmt.Sprintf("d%d", i), replay: h}
		pts := storechk.RunC13Disk(&h, r, exe, 5, rep)
		if pts > 0 {
			c.Nontrivial(fmt.Sprintf("disk-%d", i))
		}
	}
}

func init() {
	registerC14Multistore()
	register(&PropDef{ID: "C12", Level: "exploration", Workers: workersFor(8, 16), Run: runC12, Replay: replayMS("C12"),
		Rule:   "one case = one write/delete/commit/reload history on a rootmulti store with 1-5 IAVL stores + a transient store under one pruning option; every target version is loaded after every reload; non-trivial = more than 3 commits; distinct by hash of the history",
		Floors: map[string]int64{"c12.commits": 2000, "c12.reloads": 300, "c12.retained_versions_read": 1000, "c12.pruned_versions_refused": 500},
		Assume: []string{"MemDB stands for the database (its batch is applied under one lock)"}})
	register(&PropDef{ID: "C13", Level: "fault_enumeration", Workers: workersFor(8, 16), Run: runC13, Replay: replayMS("C13"),
		Rule:   "one case = one multistore history; for every commit of the history and every durable database write issued during that commit, the process is killed before that write, the database reopened, judged, and the interrupted block re-executed (exhaustive per history); non-trivial = at least one crash point; distinct by hash of the history",
		Floors: map[string]int64{"c13.crash_points": 1000, "c13.outcome.previous_version": 500, "c13.app.crash_points": 200, "c13.app.replays_ok": 100},
		Assume: []string{"a database batch write is atomic (true for goleveldb and MemDB); torn writes below the database are out of scope", "crash points are database writes: Set/Delete/Batch.Write issued during Commit"}})
}

// C14 has two workloads: the application-level one (app.go) and this multistore-level one, which adds
// empty stores and every pruning option. runC14MS is invoked from the C14 worker body.
func runC14MS(c *Ctx) {
	n := 600
	if !c.Quick() {
		n = 16 * 200
	}
	master := sim.NewRand(c.Seed ^ hashStr("C14ms"))
	for i := 0; i < n; i++ {
		r := master.Split(uint64(i))
		if !c.Mine(i) {
			continue
		}
		h := storechk.GenMSHist(r, c.Quick())
		// h.Reload kept: RunC14 reopens the store at those points and keeps querying
		c.Res.Cases++
		rep := &caseReporter{c: c, caseID: fmt.Sprintf("q%d", i), replay: map[string]interface{}{"multistore": h, "qseed": r.U64()}}
		qr := sim.NewRand(rep.replay.(map[string]interface{})["qseed"].(uint64))
		storechk.RunC14(&h, qr, rep)
		bz, _ := json.Marshal(h)
		c.Nontrivial("ms" + string(bz))
	}
}

func registerC14Multistore() {}

type nullReporter struct{}

func (nullReporter) Violate(string, string, string) {}
func (nullReporter) Count(string, int64)            {}

func runC15(c *Ctx) {
	race := raceSlice()
	n := 60000
	nc := 400
	if !c.Quick() {
		n, nc = 16*60000, 16*600
	}
	if race {
		n, nc = 3000, 120
	}
	master := sim.NewRand(c.Seed ^ hashStr("C15"))
	for i := 0; i < n; i++ {
		r := master.Split(uint64(i))
		if !c.Mine(i) {
			continue
		}
		p := storechk.GenCProg(r)
		c.Res.Cases++
		rep := &caseReporter{c: c, caseID: fmt.Sprintf("p%d", i), replay: map[string]interface{}{"program": p}}
		storechk.RunCProg(&p, rep)
		if len(p.Ops) >= 10 {
			bz, _ := json.Marshal(p)
			c.Nontrivial(string(bz))
		}
		if i < 3 {
			c.Sample(p)
		}
	}
	// wrappers with many unflushed entries
	bm := sim.NewRand(c.Seed ^ hashStr("C15bulk"))
	sizes := []int{100, 255, 256, 257, 511, 512, 513, 1000, 1023, 1024, 1025, 1500, 2047, 2048, 2049, 4096, 5000}
	nb := len(sizes)
	if !c.Quick() {
		nb = 12 * len(sizes)
	}
	if race {
		nb = 0
	}
	for i := 0; i < nb; i++ {
		r := bm.Split(uint64(i))
		if !c.Mine(i) {
			continue
		}
		sz := sizes[i%len(sizes)]
		if i >= len(sizes) {
			sz += r.Intn(7) - 3
		}
		c.Res.Cases++
		storechk.RunCBulk(r, sz, &caseReporter{c: c, caseID: fmt.Sprintf("bulk%d", i), replay: map[string]interface{}{"bulk": map[string]interface{}{"seed_index": i, "size": sz}}})
	}
	mm := sim.NewRand(c.Seed ^ hashStr("C15multi"))
	nm := n / 10
	for i := 0; i < nm; i++ {
		r := mm.Split(uint64(i))
		if !c.Mine(i) {
			continue
		}
		p := storechk.GenCMProg(r)
		c.Res.Cases++
		storechk.RunCMProg(&p, &caseReporter{c: c, caseID: fmt.Sprintf("cm%d", i), replay: map[string]interface{}{"cachemulti": p}})
		if i%8 == 0 {
			bz, _ := json.Marshal(p)
			c.Nontrivial("cm" + string(bz))
		}
	}
	cm := sim.NewRand(c.Seed ^ hashStr("C15conc"))
	for i := 0; i < nc; i++ {
		r := cm.Split(uint64(i))
		if !c.Mine(i) {
			continue
		}
		seed := r.U64()
		g := 4 + r.Intn(9)
		ops := 30 + r.Intn(40)
		nk := 2 + r.Intn(3)
		res, st, hist := storechk.RunConcurrent(seed, g, ops, nk)
		c.Res.Cases++
		c.Res.count("c15.conc.histories", 1)
		c.Res.count("c15.conc.ops", int64(st.Ops))
		c.Res.count("c15.conc.overlapping_ops", int64(st.Overlaps))
		c.Res.count("c15.conc.writes_during_histories", int64(st.Writes))
		c.Res.count("c15.conc.iterations_during_histories", int64(st.Iterations))
		c.Res.count("c15.conc.result."+res, 1)
		if st.Overlaps > 0 {
			c.Nontrivial(fmt.Sprintf("conc-%d-%d-%d-%d", seed, g, ops, nk))
		}
		switch res {
		case "illegal":
			var lines []string
			for _, op := range hist {
				lines = append(lines, fmt.Sprintf("client %d [%d,%d] %v -> %v", op.ClientId, op.Call, op.Return, op.Input, op.Output))
			}
			c.Violation("C15", "not-linearizable", fmt.Sprintf("concurrent history (%d goroutines, %d ops each, %d keys) on one cache wrapper is not linearizable", g, ops, nk),
				fmt.Sprintf("c%d", i), map[string]interface{}{"concurrent": map[string]interface{}{"seed": seed, "goroutines": g, "ops": ops, "keys": nk}, "history": lines})
		case "unknown":
			c.Res.Inconcl = append(c.Res.Inconcl, fmt.Sprintf("porcupine timed out on concurrent case c%d", i))
		}
		if i == 0 {
			c.Sample(map[string]interface{}{"concurrent": true, "goroutines": g, "ops_each": ops, "keys": nk, "overlapping_ops": st.Overlaps, "per_key_history_sizes": st.PerKey, "result": res})
		}
	}
}

func replayC15(c *Ctx, raw json.RawMessage) {
	var x struct {
		Multi      *storechk.CMProg `json:"cachemulti"`
		Program    *storechk.CProg  `json:"program"`
		Concurrent *struct {
			Seed       uint64 `json:"seed"`
			Goroutines int    `json:"goroutines"`
			Ops        int    `json:"ops"`
			Keys       int    `json:"keys"`
		} `json:"concurrent"`
		Bulk *struct {
			Index int `json:"seed_index"`
			Size  int `json:"size"`
		} `json:"bulk"`
	}
	json.Unmarshal(raw, &x)
	if x.Bulk != nil {
		r := sim.NewRand(c.Seed ^ hashStr("C15bulk")).Split(uint64(x.Bulk.Index))
		storechk.RunCBulk(r, x.Bulk.Size, &caseReporter{c: c, caseID: "replay", replay: raw})
	}
	if x.Multi != nil {
		storechk.RunCMProg(x.Multi, &caseReporter{c: c, caseID: "replay", replay: raw})
	}
	if x.Program != nil {
		storechk.RunCProg(x.Program, &caseReporter{c: c, caseID: "replay", replay: raw})
	}
	if x.Concurrent != nil {
		// schedules are not replayable; the workload is re-run 50 times with the recorded parameters
		for i := 0; i < 50; i++ {
			if res, _, _ := storechk.RunConcurrent(x.Concurrent.Seed, x.Concurrent.Goroutines, x.Concurrent.Ops, x.Concurrent.Keys); res == "illegal" {
				c.Violation("C15", "not-linearizable", "re-run of the recorded concurrent workload is not linearizable", "replay", raw)
				return
			}
		}
	}
}

func runC16(c *Ctx) {
	n := 200000
	if !c.Quick() {
		n = 16 * 90000
	}
	master := sim.NewRand(c.Seed ^ hashStr("C16"))
	for i := 0; i < n; i++ {
		r := master.Split(uint64(i))
		if !c.Mine(i) {
			continue
		}
		p := storechk.GenWProg(r)
		hasGas := false
		for _, l := range p.Stack {
			if l == "gas" {
				hasGas = true
			}
		}
		if hasGas {
			switch r.Intn(4) {
			case 0: // infinite meter
			case 1, 2: // a limit one unit either side of an operation boundary
				var cum []uint64
				storechk.RunWProgCum(&p, nullReporter{}, &cum)
				if len(cum) > 0 && cum[len(cum)-1] > 0 {
					b := cum[r.Intn(len(cum))]
					p.Limit = b + uint64(r.Intn(3)) // b, b+1, b+2 ...
					if r.Bool() && b > 0 {
						p.Limit = b - 1
					}
					if p.Limit == 0 {
						p.Limit = 1
					}
				}
			case 3: // meter pre-loaded next to 2^64
				p.Limit = 0
				if r.Bool() {
					p.Limit = ^uint64(0)
				}
				p.Preload = ^uint64(0) - uint64(r.Intn(6000))
			}
		}
		c.Res.Cases++
		rep := &caseReporter{c: c, caseID: fmt.Sprintf("w%d", i), replay: p}
		storechk.RunWProg(&p, rep)
		bz, _ := json.Marshal(p)
		c.Nontrivial(string(bz))
		if i < 3 {
			c.Sample(p)
		}
	}
	// several goroutines tracing their own stores into their own writers at once
	ntc := 300
	if !c.Quick() {
		ntc = 16 * 300
	}
	cm := sim.NewRand(c.Seed ^ hashStr("C16traceconc"))
	for i := 0; i < ntc; i++ {
		r := cm.Split(uint64(i))
		if !c.Mine(i) {
			continue
		}
		seed := r.U64()
		c.Res.Cases++
		storechk.RunTraceConcurrent(seed, &caseReporter{c: c, caseID: fmt.Sprintf("tc%d", i), replay: map[string]interface{}{"traceconc": seed}})
	}
	// tracing through the multistore's cache wrappers (one and two levels, IAVL and transient stores)
	nt := 4000
	if !c.Quick() {
		nt = 16 * 4000
	}
	tm := sim.NewRand(c.Seed ^ hashStr("C16cmtrace"))
	for i := 0; i < nt; i++ {
		r := tm.Split(uint64(i))
		if !c.Mine(i) {
			continue
		}
		p := storechk.GenCMProg(r)
		for ri := range p.Rounds { // address the transient store as well
			for j := range p.Rounds[ri] {
				if r.Chance(25) {
					p.Rounds[ri][j].Store = p.NStores
				}
			}
		}
		c.Res.Cases++
		storechk.RunCMTrace(&p, &caseReporter{c: c, caseID: fmt.Sprintf("t%d", i), replay: map[string]interface{}{"cmtrace": p}})
	}
}

func replayC16(c *Ctx, raw json.RawMessage) {
	var tcs struct {
		Seed *uint64 `json:"traceconc"`
	}
	if json.Unmarshal(raw, &tcs) == nil && tcs.Seed != nil {
		for k := 0; k < 50; k++ { // an interleaving-dependent case: repeated
			storechk.RunTraceConcurrent(*tcs.Seed, &caseReporter{c: c, caseID: "replay", replay: raw})
		}
		return
	}
	var t struct {
		Trace *storechk.CMProg `json:"cmtrace"`
	}
	if json.Unmarshal(raw, &t) == nil && t.Trace != nil {
		storechk.RunCMTrace(t.Trace, &caseReporter{c: c, caseID: "replay", replay: raw})
		return
	}
	var p storechk.WProg
	if json.Unmarshal(raw, &p) == nil {
		storechk.RunWProg(&p, &caseReporter{c: c, caseID: "replay", replay: raw})
	}
}

func init() {
	register(&PropDef{ID: "C15", Level: "exploration", Workers: workersFor(8, 16), Run: runC15, Replay: replayC15, Race: true,
		Rule:   "sequential: one case = one operation program (5-60 ops, nesting <= 4, four parent kinds) compared op-by-op with a sorted-map model, non-trivial = >= 10 ops, distinct by hash of the program; concurrent: one case = one recorded history of 4-12 goroutines on 2-4 keys checked by porcupine per key, non-trivial = it contains overlapping operations; the same workload runs under the Go race detector",
		Floors: map[string]int64{"c15.seq.iterations": 2000, "c15.seq.writes": 1000, "c15.seq.iterations_with_interleaved_write": 500, "c15.conc.histories": 100, "c15.conc.overlapping_ops": 1000, "c15.cachemulti.writes": 500, "c15.cachemulti.discards": 100},
		Assume: []string{"operations are applied to the innermost open wrapper only (the parent is not written behind a live wrapper)", "writes during an open iterator are judged by the weak guarantees of DESIGN.md C15"}})
	register(&PropDef{ID: "C16", Level: "exploration", Workers: workersFor(8, 16), Run: runC16, Replay: replayC16,
		Rule:   "one case = one operation program against a stacking of prefix/gas/trace/cache wrappers over a MemDB parent holding keys inside and outside the prefix, with a gas limit placed next to an operation boundary or a meter pre-loaded next to 2^64; every case is distinct by hash and non-trivial (>= 4 ops)",
		Floors: map[string]int64{"c16.ops": 100000, "c16.gas_panics.outofgas": 500, "c16.gas_panics.overflow": 100, "c16.trace_lines": 10000},
		Assume: []string{"gas reference = the doc comments of store/gaskv (flat + per-byte around each delegated call; iterator: seek charge at creation if valid, and in Next for the current value before advancing)", "tracekv does not trace Has (as upstream); it is not required to"}})
}
