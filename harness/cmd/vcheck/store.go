package main

import (
	"encoding/json"
	"fmt"

	"verif/harness/sim"
	"verif/harness/storechk"
)

// caseReporter adapts a Ctx to storechk.Reporter for one case (the case payload is the replay artefact).
type caseReporter struct {
	c      *Ctx
	caseID string
	replay interface{}
	nviol  int
}

func (r *caseReporter) Violate(prop, sig, msg string) {
	r.nviol++
	r.c.Violation(prop, sig, msg, r.caseID, r.replay)
}
func (r *caseReporter) Count(k string, n int64) { r.c.Res.count(k, n) }

func runC12(c *Ctx) {
	n := 240
	if !c.Quick() {
		n = 16 * 300
	}
	master := sim.NewRand(c.Seed ^ hashStr("C12"))
	for i := 0; i < n; i++ {
		r := master.Split(uint64(i))
		if !c.Mine(i) {
			continue
		}
		h := storechk.GenMSHist(r, c.Quick())
		c.Res.Cases++
		rep := &caseReporter{c: c, caseID: fmt.Sprintf("m%d", i), replay: h}
		storechk.RunC12(&h, rep)
		bz, _ := json.Marshal(h)
		if len(h.Commits) > 3 {
			c.Nontrivial(string(bz))
		}
		c.Sample(map[string]interface{}{"stores": h.NStores, "pruning": h.Pruning, "commits": len(h.Commits), "reload_after": h.Reload, "first_commit_ops": h.Commits[0]})
	}
}

func replayMS(prop string) func(c *Ctx, raw json.RawMessage) {
	return func(c *Ctx, raw json.RawMessage) {
		var h storechk.MSHist
		if err := json.Unmarshal(raw, &h); err != nil {
			c.Res.Inconcl = append(c.Res.Inconcl, "bad replay: "+err.Error())
			return
		}
		rep := &caseReporter{c: c, caseID: "replay", replay: h}
		if prop == "C12" {
			storechk.RunC12(&h, rep)
		} else {
			storechk.RunC13(&h, rep)
		}
	}
}

func runC13(c *Ctx) {
	n := 64
	if !c.Quick() {
		n = 16 * 120
	}
	master := sim.NewRand(c.Seed ^ hashStr("C13"))
	for i := 0; i < n; i++ {
		r := master.Split(uint64(i))
		if !c.Mine(i) {
			continue
		}
		h := storechk.GenMSHist(r, true)
		if len(h.Commits) > 14 {
			h.Commits = h.Commits[:14]
		}
		h.Reload = nil
		c.Res.Cases++
		rep := &caseReporter{c: c, caseID: fmt.Sprintf("m%d", i), replay: h}
		pts := storechk.RunC13(&h, rep)
		bz, _ := json.Marshal(h)
		if pts > 0 {
			c.Nontrivial(string(bz))
		}
		c.Sample(map[string]interface{}{"stores": h.NStores, "pruning": h.Pruning, "commits": len(h.Commits), "crash_points_enumerated": pts})
	}
}

func init() {
	registerC14Multistore()
	register(&PropDef{ID: "C12", Level: "exploration", Workers: workersFor(8, 16), Run: runC12, Replay: replayMS("C12"),
		Rule:   "one case = one write/delete/commit/reload history on a rootmulti store with 1-5 IAVL stores + a transient store under one pruning option; every target version is loaded after every reload; non-trivial = more than 3 commits; distinct by hash of the history",
		Floors: map[string]int64{"c12.commits": 2000, "c12.reloads": 300, "c12.retained_versions_read": 1000, "c12.pruned_versions_refused": 500},
		Assume: []string{"MemDB stands for the database (its batch is applied under one lock)"}})
	register(&PropDef{ID: "C13", Level: "fault_enumeration", Workers: workersFor(8, 16), Run: runC13, Replay: replayMS("C13"),
		Rule:   "one case = one multistore history; for every commit of the history and every durable database write issued during that commit, the process is killed before that write, the database reopened, judged, and the interrupted block re-executed (exhaustive per history); non-trivial = at least one crash point; distinct by hash of the history",
		Floors: map[string]int64{"c13.crash_points": 1000, "c13.outcome.previous_version": 500},
		Assume: []string{"a database batch write is atomic (true for goleveldb and MemDB); torn writes below the database are out of scope", "crash points are database writes: Set/Delete/Batch.Write issued during Commit"}})
}

// C14 has two workloads: the application-level one (app.go) and this multistore-level one, which adds
// empty stores and every pruning option. runC14MS is invoked from the C14 worker body.
func runC14MS(c *Ctx) {
	n := 160
	if !c.Quick() {
		n = 16 * 200
	}
	master := sim.NewRand(c.Seed ^ hashStr("C14ms"))
	for i := 0; i < n; i++ {
		r := master.Split(uint64(i))
		if !c.Mine(i) {
			continue
		}
		h := storechk.GenMSHist(r, c.Quick())
		h.Reload = nil
		c.Res.Cases++
		rep := &caseReporter{c: c, caseID: fmt.Sprintf("q%d", i), replay: map[string]interface{}{"multistore": h, "qseed": r.U64()}}
		qr := sim.NewRand(rep.replay.(map[string]interface{})["qseed"].(uint64))
		storechk.RunC14(&h, qr, rep)
		bz, _ := json.Marshal(h)
		c.Nontrivial("ms" + string(bz))
	}
}

func registerC14Multistore() {}
