// vcheck: supervisor + worker for every property check. See /verif/DESIGN.md §2.
package main

import (
	"crypto/sha256"
	"encoding/hex"
	"encoding/json"
	"flag"
	"fmt"
	"io/ioutil"
	"os"
	"os/exec"
	"path/filepath"
	"sort"
	"strconv"
	"strings"
	"time"
	"verif/harness/sim"
	"verif/harness/storechk"
)

// ---- shared result format between worker and supervisor ---------------------------------------

type ViolationRec struct {
	Prop   string `json:"property"`
	Sig    string `json:"signature"`
	Msg    string `json:"message"`
	Case   string `json:"case"`
	Replay string `json:"replay"`
}

type WorkerResult struct {
	Prop       string            `json:"property"`
	Cases      int               `json:"cases"`
	Hashes     []string          `json:"nontrivial_hashes"`
	Stats      map[string]int64  `json:"stats"`
	Violations []ViolationRec    `json:"violations"`
	Samples    []json.RawMessage `json:"samples"`
	Notes      []string          `json:"notes"`
	Inconcl    []string          `json:"inconclusive"`
	Done       bool              `json:"done"`
}

func (r *WorkerResult) count(k string, n int64) {
	if r.Stats == nil {
		r.Stats = map[string]int64{}
	}
	r.Stats[k] += n
}

type Ctx struct {
	Prop      string
	Tier      string
	Seed      uint64
	Shard     int
	Of        int
	OutDir    string // scratch (removed by the supervisor)
	ReplayDir string
	Journal   string // per-worker journal of the ABCI requests of the running case, written before each call
	Res       *WorkerResult
	seen      map[string]bool
}

func (c *Ctx) Quick() bool { return c.Tier != "thorough" }

// Mine reports whether case i belongs to this shard.
func (c *Ctx) Mine(i int) bool { return c.Of <= 1 || i%c.Of == c.Shard }

func (c *Ctx) Nontrivial(fingerprint string) {
	h := sha256.Sum256([]byte(fingerprint))
	k := hex.EncodeToString(h[:8])
	if c.seen == nil {
		c.seen = map[string]bool{}
	}
	if !c.seen[k] {
		c.seen[k] = true
		c.Res.Hashes = append(c.Res.Hashes, k)
	}
}

func (c *Ctx) Sample(v interface{}) {
	if len(c.Res.Samples) >= 3 {
		return
	}
	bz, err := json.Marshal(v)
	if err == nil {
		c.Res.Samples = append(c.Res.Samples, bz)
	}
}

// Violation stores the replay artefact and records the violation.
func (c *Ctx) Violation(prop, sig, msg, caseID string, replay interface{}) {
	for _, v := range c.Res.Violations {
		if v.Prop == prop && v.Sig == sig {
			c.Res.count("violations_deduplicated", 1)
			return
		}
	}
	os.MkdirAll(c.ReplayDir, 0755)
	name := fmt.Sprintf("%s-%d-%s-%s.json", prop, c.Seed, caseID, sanitize(sig))
	path := filepath.Join(c.ReplayDir, name)
	bz, _ := json.Marshal(map[string]interface{}{"property": prop, "signature": sig, "message": msg, "seed": c.Seed, "case": caseID, "tier": c.Tier, "replay": replay})
	ioutil.WriteFile(path, bz, 0644)
	c.Res.Violations = append(c.Res.Violations, ViolationRec{Prop: prop, Sig: sig, Msg: msg, Case: caseID, Replay: path})
}

func sanitize(s string) string {
	b := []byte(s)
	for i, ch := range b {
		if !(ch >= 'a' && ch <= 'z' || ch >= 'A' && ch <= 'Z' || ch >= '0' && ch <= '9' || ch == '-') {
			b[i] = '_'
		}
	}
	if len(b) > 60 {
		b = b[:60]
	}
	return string(b)
}

// ---- property registry ------------------------------------------------------------------------

type PropDef struct {
	ID      string
	Level   string // exploration | fault_enumeration
	Workers func(tier string) int
	Run     func(c *Ctx)                      // worker body
	Replay  func(c *Ctx, raw json.RawMessage) // re-run a stored case
	Rule    string
	Floors  map[string]int64 // coverage floors (quick tier); thorough uses the same
	Assume  []string
	Race    bool // this property also has a -race slice (separate binary)
}

var registry = map[string]*PropDef{}

func register(p *PropDef) { registry[p.ID] = p }

// ---- known findings -------------------------------------------------------------------------------

type Finding struct {
	Prop   string `json:"property"`
	Sig    string `json:"signature"` // prefix match on the violation signature
	What   string `json:"what"`
	Status string `json:"status"` // "known" | "fixed"
	Commit string `json:"commit,omitempty"`
}

func loadFindings() []Finding {
	var fs struct {
		Findings []Finding `json:"findings"`
	}
	bz, err := ioutil.ReadFile(filepath.Join(verifDir(), "known_findings.json"))
	if err != nil {
		return nil
	}
	json.Unmarshal(bz, &fs)
	return fs.Findings
}

func verifDir() string {
	if d := os.Getenv("VERIF_DIR"); d != "" {
		return d
	}
	return "/verif"
}

// ---- main -----------------------------------------------------------------------------------------

func main() {
	if len(os.Args) < 2 {
		fmt.Println("usage: vcheck <Cxx> [--tier quick|thorough] [--replay file] | vcheck --worker ...")
		os.Exit(2)
	}
	if os.Args[1] == "--worker" {
		workerMain(os.Args[2:])
		return
	}
	if os.Args[1] == "--c13child" && len(os.Args) == 6 {
		v, _ := strconv.Atoi(os.Args[4])
		i, _ := strconv.Atoi(os.Args[5])
		storechk.C13Child(os.Args[2], os.Args[3], v, i)
		return
	}
	if os.Args[1] == "--digest" {
		digestMain(os.Args[2])
		return
	}
	prop := os.Args[1]
	fs := flag.NewFlagSet("vcheck", flag.ExitOnError)
	tier := fs.String("tier", envOr("VERIF_TIER", "quick"), "quick|thorough")
	replay := fs.String("replay", "", "replay file")
	seedS := fs.String("seed", envOr("VERIF_SEED", "20260925"), "seed")
	fs.Parse(os.Args[2:])
	seed, _ := strconv.ParseUint(*seedS, 10, 64)
	def, ok := registry[prop]
	if !ok {
		fmt.Printf("unknown property %s\n", prop)
		os.Exit(2)
	}
	if *replay != "" {
		os.Exit(replayMain(def, *replay, seed))
	}
	os.Exit(supervise(def, *tier, seed))
}

func envOr(k, d string) string {
	if v := os.Getenv(k); v != "" {
		return v
	}
	return d
}

func workerMain(args []string) {
	fs := flag.NewFlagSet("worker", flag.ExitOnError)
	prop := fs.String("prop", "", "")
	tier := fs.String("tier", "quick", "")
	seed := fs.Uint64("seed", 1, "")
	shard := fs.Int("shard", 0, "")
	of := fs.Int("of", 1, "")
	out := fs.String("out", "", "")
	rdir := fs.String("replaydir", "", "")
	fs.Parse(args)
	def := registry[*prop]
	res := &WorkerResult{Prop: *prop, Stats: map[string]int64{}}
	c := &Ctx{Prop: *prop, Tier: *tier, Seed: *seed, Shard: *shard, Of: *of, OutDir: filepath.Dir(*out), ReplayDir: *rdir, Journal: *out + ".journal", Res: res}
	def.Run(c)
	res.Done = true
	bz, _ := json.Marshal(res)
	ioutil.WriteFile(*out, bz, 0644)
}

func replayMain(def *PropDef, path string, seed uint64) int {
	bz, err := ioutil.ReadFile(path)
	if err != nil {
		fmt.Println("cannot read replay file:", err)
		return 2
	}
	var f struct {
		Prop   string          `json:"property"`
		Sig    string          `json:"signature"`
		Seed   uint64          `json:"seed"`
		Tier   string          `json:"tier"`
		Replay json.RawMessage `json:"replay"`
	}
	if err := json.Unmarshal(bz, &f); err != nil {
		fmt.Println("bad replay file:", err)
		return 2
	}
	if def.Replay == nil {
		fmt.Println("property has no replay function")
		return 2
	}
	if strings.HasPrefix(f.Sig, "process-exit/") && os.Getenv("VCHECK_REPLAY_INNER") == "" {
		// the recorded history ends the process that executes it: replay it in a child and judge how the child ends
		self, _ := os.Executable()
		cmd := exec.Command(self, def.ID, "--replay", path)
		cmd.Env = append(os.Environ(), "VCHECK_REPLAY_INNER=1")
		out, err := cmd.CombinedOutput()
		if err == nil || strings.Contains(string(out), "no violation of") {
			fmt.Printf("replay of %s: the replaying process survived the history: no violation of %s on the current tree (recorded: %s)\n", path, def.ID, f.Sig)
			return 0
		}
		fmt.Printf("replay reproduces: property=%s signature=%s\n  the process replaying the history ended inside it (%v); last output: %s\n", def.ID, f.Sig, err, oneLine(lastLines(string(out), 3)))
		fmt.Printf("VIOLATION property=%s replay=%s\n", def.ID, path)
		return 1
	}
	tmp, _ := ioutil.TempDir("", "vreplay")
	defer os.RemoveAll(tmp)
	res := &WorkerResult{Prop: def.ID, Stats: map[string]int64{}}
	c := &Ctx{Prop: def.ID, Tier: f.Tier, Seed: f.Seed, Of: 1, OutDir: tmp, ReplayDir: filepath.Join(tmp, "replay"), Res: res}
	def.Replay(c, f.Replay)
	if len(res.Violations) == 0 {
		fmt.Printf("replay of %s: no violation of %s on the current tree (recorded: %s)\n", path, def.ID, f.Sig)
		return 0
	}
	for _, v := range res.Violations {
		fmt.Printf("replay reproduces: property=%s signature=%s\n  %s\n", v.Prop, v.Sig, v.Msg)
	}
	fmt.Printf("VIOLATION property=%s replay=%s\n", def.ID, path)
	return 1
}

func supervise(def *PropDef, tier string, seed uint64) int {
	t0 := time.Now()
	vd := verifDir()
	scratch, err := ioutil.TempDir("", "vcheck-"+def.ID)
	if err != nil {
		fmt.Println(err)
		return 2
	}
	defer os.RemoveAll(scratch)
	replayDir := filepath.Join(vd, "evidence", "replay")
	n := def.Workers(tier)
	self, _ := os.Executable()
	type wk struct {
		cmd  *exec.Cmd
		out  string
		logf string
		race bool
	}
	var ws []*wk
	launch := func(bin string, i, of int, race bool) {
		out := filepath.Join(scratch, fmt.Sprintf("w%d-%v.json", i, race))
		logf := out + ".log"
		to := "900"
		if tier == "thorough" {
			to = "3000"
		}
		cmd := exec.Command("timeout", "-s", "QUIT", to, bin, "--worker", "--prop", def.ID, "--tier", tier,
			"--seed", fmt.Sprint(seed), "--shard", fmt.Sprint(i), "--of", fmt.Sprint(of), "--out", out, "--replaydir", replayDir)
		lf, _ := os.Create(logf)
		cmd.Stdout, cmd.Stderr = lf, lf
		cmd.Env = append(os.Environ(), "VCHECK_RACE_SLICE="+fmt.Sprint(race), "GORACE=halt_on_error=0 log_path="+filepath.Join(scratch, "race"))
		cmd.Start()
		ws = append(ws, &wk{cmd: cmd, out: out, logf: logf, race: race})
	}
	for i := 0; i < n; i++ {
		launch(self, i, n, false)
	}
	if def.Race {
		if rb := os.Getenv("VCHECK_RACE_BIN"); rb != "" {
			launch(rb, 0, 1, true)
		}
	}
	total := &WorkerResult{Prop: def.ID, Stats: map[string]int64{}}
	hashes := map[string]bool{}
	var inconcl []string
	for _, w := range ws {
		werr := w.cmd.Wait()
		bz, rerr := ioutil.ReadFile(w.out)
		var r WorkerResult
		if rerr != nil || json.Unmarshal(bz, &r) != nil || !r.Done {
			tail := tailOf(w.logf, 30)
			// did the application kill the process inside an ABCI call? (the journal holds every request of the
			// running history, each written before it was issued)
			if caseID, prof, log := readJournal(w.out + ".journal"); len(log) > 0 {
				last := log[len(log)-1]
				msg := fmt.Sprintf("the process ended (exit status: %v) inside %s call #%d (%s) of history %s; last output: %s", werr, last.Kind, last.Seq, last.Label, caseID, oneLine(tailOf(w.logf, 3)))
				govCall := false
				for _, pre := range []string{"govparam", "acl", "dao", "upgrade", "scenario:raise-minimum"} {
					if strings.HasPrefix(last.Label, pre) || strings.HasPrefix(last.Label, "probe:"+pre) || strings.HasPrefix(last.Label, "fresh-"+pre) {
						govCall = true
					}
				}
				// C11: "the process keeps running"; C17: a governance message is either applied or rejected — the process
				// ending inside its execution is neither
				if def.ID == "C11" || (def.ID == "C17" && govCall && (last.Kind == "deliver" || last.Kind == "check")) {
					rdir := filepath.Join(vd, "evidence", "replay")
					os.MkdirAll(rdir, 0755)
					sig := "process-exit/" + last.Kind
					path := filepath.Join(rdir, fmt.Sprintf("%s-%d-%s-%s.json", def.ID, seed, caseID, sanitize(sig)))
					bz, _ := json.Marshal(map[string]interface{}{"property": def.ID, "signature": sig, "message": msg, "seed": seed, "case": caseID, "tier": tier, "replay": histReplay{Profile: prof, Log: log}})
					ioutil.WriteFile(path, bz, 0644)
					total.Violations = append(total.Violations, ViolationRec{Prop: def.ID, Sig: sig, Msg: msg, Case: caseID, Replay: path})
				}
				inconcl = append(inconcl, "worker lost: "+msg)
				total.Cases++ // the history the worker was executing when it ended
				continue
			}
			inconcl = append(inconcl, fmt.Sprintf("worker died (%v): %s", werr, oneLine(tail)))
			keep := filepath.Join(vd, "evidence", fmt.Sprintf("%s-worker-death.log", def.ID))
			os.MkdirAll(filepath.Dir(keep), 0755)
			ioutil.WriteFile(keep, []byte(tail), 0644)
			continue
		}
		total.Cases += r.Cases
		for _, h := range r.Hashes {
			hashes[h] = true
		}
		for k, v := range r.Stats {
			if w.race {
				total.Stats["race_slice."+k] += v
			} else {
				total.Stats[k] += v
			}
		}
		total.Violations = append(total.Violations, r.Violations...)
		if len(total.Samples) < 3 {
			total.Samples = append(total.Samples, r.Samples...)
		}
		total.Notes = append(total.Notes, r.Notes...)
		inconcl = append(inconcl, r.Inconcl...)
	}
	// race reports
	raceBlocks := 0
	if def.Race {
		files, _ := filepath.Glob(filepath.Join(scratch, "race*"))
		for _, f := range files {
			bz, _ := ioutil.ReadFile(f)
			nb := strings.Count(string(bz), "WARNING: DATA RACE")
			if nb > 0 {
				raceBlocks += nb
				keep := filepath.Join(replayDir, fmt.Sprintf("%s-race-%d.log", def.ID, seed))
				os.MkdirAll(replayDir, 0755)
				ioutil.WriteFile(keep, bz, 0644)
				total.Violations = append(total.Violations, ViolationRec{Prop: def.ID, Sig: "data-race", Msg: fmt.Sprintf("%d data race report blocks", nb), Replay: keep})
			}
		}
		total.Stats["race_report_blocks"] = int64(raceBlocks)
	}
	// coverage floors
	for k, min := range def.Floors {
		if total.Stats[k] < min {
			inconcl = append(inconcl, fmt.Sprintf("coverage floor missed: %s=%d < %d", k, total.Stats[k], min))
		}
	}
	// known findings
	findings := loadFindings()
	exit := 0
	unknown := 0
	printedKnown := map[string]bool{}
	for _, v := range total.Violations {
		matched := false
		for _, f := range findings {
			if f.Status == "known" && f.Prop == v.Prop && strings.HasPrefix(v.Sig, f.Sig) {
				matched = true
				if !printedKnown[f.Prop+f.Sig] {
					printedKnown[f.Prop+f.Sig] = true
					fmt.Printf("KNOWN-FINDING: property=%s %s [signature %s]\n", v.Prop, f.What, f.Sig)
				}
				os.Remove(v.Replay)
			}
		}
		if !matched {
			if printedKnown["V"+v.Prop+v.Sig] {
				os.Remove(v.Replay)
				continue
			}
			printedKnown["V"+v.Prop+v.Sig] = true
			unknown++
			fmt.Printf("violation: property=%s signature=%s case=%s\n  %s\n", v.Prop, v.Sig, v.Case, v.Msg)
			fmt.Printf("VIOLATION property=%s replay=%s\n", v.Prop, v.Replay)
			exit = 1
		}
	}
	// evidence
	samples := total.Samples
	if len(samples) == 0 {
		samples = []json.RawMessage{json.RawMessage(`"no sample recorded"`)}
	}
	statKeys := make([]string, 0, len(total.Stats))
	for k := range total.Stats {
		statKeys = append(statKeys, k)
	}
	sort.Strings(statKeys)
	cov := map[string]interface{}{
		"evaluations":         total.Cases,
		"distinct_nontrivial": len(hashes),
		"rule":                def.Rule,
		"samples":             samples,
		"observed":            total.Stats,
		"workers":             len(ws),
		"known_findings_seen": knownSeen(printedKnown),
		"inconclusive":        inconcl,
	}
	if def.Level == "fault_enumeration" {
		cov["exhaustive_per_history"] = true
	}
	ev := map[string]interface{}{
		"property_id": def.ID, "tier": tier, "seed": seed, "level": def.Level, "coverage": cov,
		"assumptions": def.Assume, "wall_s": time.Since(t0).Seconds(), "violations": unknown,
	}
	bz, _ := json.MarshalIndent(ev, "", " ")
	os.MkdirAll(filepath.Join(vd, "evidence"), 0755)
	ioutil.WriteFile(filepath.Join(vd, "evidence", def.ID+".json"), bz, 0644)
	fmt.Printf("%s tier=%s seed=%d: %d cases, %d distinct non-trivial, %d violation(s), %d known finding(s), %.1fs\n",
		def.ID, tier, seed, total.Cases, len(hashes), unknown, knownSeen(printedKnown), time.Since(t0).Seconds())
	for _, k := range statKeys {
		fmt.Printf("  observed %-44s %d\n", k, total.Stats[k])
	}
	if exit == 0 && len(inconcl) > 0 {
		for _, s := range inconcl {
			fmt.Printf("INCONCLUSIVE property=%s reason=%s\n", def.ID, s)
		}
		return 2
	}
	return exit
}

func knownSeen(m map[string]bool) int {
	n := 0
	for k := range m {
		if !strings.HasPrefix(k, "V") {
			n++
		}
	}
	return n
}

func tailOf(path string, n int) string {
	bz, _ := ioutil.ReadFile(path)
	lines := strings.Split(string(bz), "\n")
	if len(lines) > n {
		lines = lines[len(lines)-n:]
	}
	return strings.Join(lines, "\n")
}

func oneLine(s string) string {
	s = strings.ReplaceAll(s, "\n", " | ")
	if len(s) > 400 {
		s = s[len(s)-400:]
	}
	return s
}

// readJournal parses a worker's journal: a header line, then one request per line; a trailing case_end line means the
// history had finished (nothing to attribute).
func readJournal(path string) (caseID, profile string, log []sim.LogEntry) {
	bz, err := ioutil.ReadFile(path)
	if err != nil {
		return "", "", nil
	}
	lines := strings.Split(strings.TrimSpace(string(bz)), "\n")
	if len(lines) < 2 {
		return "", "", nil
	}
	var hdr struct {
		Case    string `json:"case"`
		Profile string `json:"profile"`
	}
	if json.Unmarshal([]byte(lines[0]), &hdr) != nil || hdr.Case == "" {
		return "", "", nil
	}
	for _, l := range lines[1:] {
		if strings.HasPrefix(l, `{"case_end"`) {
			return "", "", nil
		}
		var le sim.LogEntry
		if json.Unmarshal([]byte(l), &le) != nil || le.Kind == "" {
			break // a torn last line
		}
		log = append(log, le)
	}
	return hdr.Case, hdr.Profile, log
}

func lastLines(s string, n int) string {
	ls := strings.Split(strings.TrimSpace(s), "\n")
	if len(ls) > n {
		ls = ls[len(ls)-n:]
	}
	return strings.Join(ls, "\n")
}
