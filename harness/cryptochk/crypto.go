// Package cryptochk: C19 — signatures bind key and message; keybase export/import round trips.
package cryptochk

import (
	"bytes"
	"encoding/hex"
	"fmt"
	"github.com/pokt-network/posmint/crypto/keys/mintkey"
	"io/ioutil"
	"os"
	"sort"
	"strings"

	"verif/harness/mon"
	"verif/harness/sim"

	"github.com/pokt-network/posmint/crypto"
	"github.com/pokt-network/posmint/crypto/keys"
	sdk "github.com/pokt-network/posmint/types"
)

type Reporter interface {
	Violate(prop, sig, msg string)
	Count(k string, n int64)
}

func catch(fn func()) (p interface{}) {
	defer func() {
		if r := recover(); r != nil {
			p = r
		}
	}()
	fn()
	return nil
}

// samePub compares keys without posmint's Equals (which panics on keys of different types).
func samePub(a, b crypto.PublicKey) bool {
	return fmt.Sprintf("%T", a) == fmt.Sprintf("%T", b) && bytes.Equal(a.RawBytes(), b.RawBytes())
}

func hexOf(a sdk.Address) string { return hex.EncodeToString([]byte(a)) }

func genMsg(r *sim.Rand) []byte {
	switch r.Intn(6) {
	case 0:
		return []byte{}
	case 1:
		return []byte{byte(r.Intn(256))}
	case 2:
		return r.Bytes(65536)
	default:
		return r.Bytes(1 + r.Intn(200))
	}
}

func single(r *sim.Rand, seed uint64, i int) *sim.Actor {
	if r.Bool() {
		return sim.NewEdActor(seed, i)
	}
	return sim.NewSecpActor(seed, i)
}

// sigPart is the harness's ground truth about one signature component.
type sigPart struct {
	by  *sim.Actor // nil: garbage
	msg []byte
	raw []byte
}

// expectVerify computes, from ground truth only, whether pk must accept sig parts over msg.
func expectSingle(pk crypto.PublicKey, msg []byte, p sigPart) bool {
	return p.by != nil && p.by.Multi == nil && samePub(p.by.Pub, pk) && bytes.Equal(p.msg, msg)
}

// CheckSignatures runs one batch of signature cases for a sub-seed.
func CheckSignatures(r *sim.Rand, rep Reporter) {
	seed := r.U64()
	a := single(r, seed, 0)
	b := single(r, seed, 1)
	m := genMsg(r)
	sig := a.Sign(m)
	verify := func(pk crypto.PublicKey, msg, s []byte) (bool, interface{}) {
		var ok bool
		p := catch(func() { ok = pk.VerifyBytes(msg, s) })
		return ok, p
	}
	judge := func(what string, pk crypto.PublicKey, msg, s []byte, want bool, strict bool) {
		got, p := verify(pk, msg, s)
		rep.Count("c19.sig.cases", 1)
		if p != nil {
			rep.Violate("C19", "verify-panic/"+what, fmt.Sprintf("VerifyBytes panicked on %s: %v", what, p))
			return
		}
		indep := mon.IndepVerify(pk, msg, s)
		if got != indep {
			rep.Violate("C19", "verify-disagrees-with-independent/"+what, fmt.Sprintf("%s: posmint says %v, independent primitive says %v (key %s)", what, got, indep, a.Kind))
		}
		if want && !got {
			rep.Violate("C19", "honest-signature-rejected/"+what, fmt.Sprintf("%s: an honest %s signature does not verify", what, a.Kind))
		}
		if !want && got && strict {
			rep.Violate("C19", "signature-accepted/"+what, fmt.Sprintf("%s: signature verifies although it was produced over another (key, message)", what))
		}
		if !want && got && !strict {
			rep.Count("c19.sig.malleable_variant_verifies", 1)
		}
	}
	judge("honest", a.Pub, m, sig, true, true)
	rep.Count("c19.sig.honest."+a.Kind, 1)
	judge("other-key", b.Pub, m, sig, samePub(a.Pub, b.Pub), true)
	m2 := append(append([]byte{}, m...), 0)
	judge("other-message/extended", a.Pub, m2, sig, false, true)
	if len(m) > 0 {
		m3 := append([]byte{}, m...)
		m3[r.Intn(len(m3))] ^= 1 << uint(r.Intn(8))
		judge("other-message/bitflip", a.Pub, m3, sig, false, true)
		judge("other-message/truncated", a.Pub, m[:len(m)-1], sig, false, true)
	}
	judge("sig-truncated", a.Pub, m, sig[:len(sig)-1], false, true)
	judge("sig-extended", a.Pub, m, append(append([]byte{}, sig...), 0), false, true)
	judge("sig-empty", a.Pub, m, nil, false, true)
	fl := append([]byte{}, sig...)
	fl[r.Intn(len(fl))] ^= 1 << uint(r.Intn(8))
	judge("sig-bitflip", a.Pub, m, fl, false, false) // another byte string verifying for the same (key,msg) would be malleability, not a binding failure
	sb := b.Sign(m)
	judge("signature-of-other-key", a.Pub, m, sb, samePub(a.Pub, b.Pub), true)

	// ---- multisignature: N-of-N, positional ----
	n := 2 + r.Intn(3)
	var subs []*sim.Actor
	for i := 0; i < n; i++ {
		if i == n-1 && r.Chance(35) {
			subs = append(subs, sim.NewMultiActor("inner", single(r, seed, 10+i), single(r, seed, 20+i)))
		} else {
			subs = append(subs, single(r, seed, 2+i))
		}
	}
	rp, rq := -1, -1
	if r.Chance(30) {
		// the same component key listed in two positions
		rp = r.Intn(n - 1)
		rq = rp + 1 + r.Intn(n-1-rp)
		subs[rq] = subs[rp]
	}
	mk := sim.NewMultiActor("mk", subs...)
	parts := make([][]byte, n)
	for i, s := range subs {
		parts[i] = s.Sign(m)
	}
	enc := func(ps [][]byte) []byte { return crypto.MultiSignature{Sigs: ps}.Marshal() }
	mjudge := func(what string, ps [][]byte, want bool) {
		var s []byte
		if p := catch(func() { s = enc(ps) }); p != nil {
			return
		}
		got, p := verify(mk.Pub, m, s)
		rep.Count("c19.multisig.cases", 1)
		if p != nil {
			rep.Violate("C19", "multisig-verify-panic/"+what, fmt.Sprintf("multisig VerifyBytes panicked on %s: %v", what, p))
			return
		}
		if got != want {
			sigc := "multisig-accepted/" + what
			if want {
				sigc = "multisig-honest-rejected/" + what
			}
			rep.Violate("C19", sigc, fmt.Sprintf("%d-of-%d multisignature, case %s: VerifyBytes = %v, every listed key signed in its own position: %v", n, n, what, got, want))
		}
		if indep := mon.IndepVerify(mk.Pub, m, s); indep != got {
			rep.Violate("C19", "multisig-disagrees-with-independent/"+what, fmt.Sprintf("case %s: posmint %v, positional N-of-N rule %v", what, got, indep))
		}
	}
	mjudge("honest", parts, true)
	rep.Count("c19.multisig.honest", 1)
	// swap two positions
	i, j := r.Intn(n), r.Intn(n)
	if i != j && !samePub(subs[i].Pub, subs[j].Pub) {
		sw := append([][]byte{}, parts...)
		sw[i], sw[j] = sw[j], sw[i]
		mjudge("swapped", sw, false)
	}
	// one signature duplicated into every position
	dup := make([][]byte, n)
	for k := range dup {
		dup[k] = parts[0]
	}
	allSame := true
	for _, s := range subs {
		if !samePub(s.Pub, subs[0].Pub) {
			allSame = false
		}
	}
	mjudge("duplicated", dup, allSame)
	mjudge("missing-last", parts[:n-1], false)
	mjudge("missing-first", parts[1:], false)
	mjudge("extra", append(append([][]byte{}, parts...), parts[0]), false)
	mjudge("empty", [][]byte{}, false)
	// one component over another message
	om := append([][]byte{}, parts...)
	om[i] = subs[i].Sign(m2)
	mjudge("component-other-message", om, false)
	// one component by an outsider
	ok := append([][]byte{}, parts...)
	ok[i] = b.Sign(m)
	if subs[i].Multi != nil || !samePub(subs[i].Pub, b.Pub) {
		mjudge("component-other-key", ok, false)
	}
	if rq >= 0 {
		// a key listed twice must sign in both positions
		rep.Count("c19.multisig.repeated_key_cases", 1)
		for _, v := range []struct {
			what string
			sig  []byte
		}{{"repeated-key-later-position-other-message", subs[rq].Sign(m2)}, {"repeated-key-later-position-garbage", r.Bytes(64)}, {"repeated-key-later-position-empty", []byte{}}, {"repeated-key-later-position-outsider", b.Sign(m)}} {
			if v.what == "repeated-key-later-position-outsider" && subs[rq].Multi == nil && samePub(subs[rq].Pub, b.Pub) {
				continue
			}
			x := append([][]byte{}, parts...)
			x[rq] = v.sig
			mjudge(v.what, x, false)
		}
	}
	// reversed
	if n >= 2 {
		rv := make([][]byte, n)
		for k := range parts {
			rv[n-1-k] = parts[k]
		}
		pal := true
		for k := range subs {
			if !samePub(subs[k].Pub, subs[n-1-k].Pub) {
				pal = false
			}
		}
		mjudge("reversed", rv, pal)
	}
	// garbage bytes as the multisignature
	if got, p := verify(mk.Pub, m, r.Bytes(1+r.Intn(100))); p != nil {
		rep.Violate("C19", "multisig-verify-panic/garbage", fmt.Sprintf("multisig VerifyBytes panicked on random bytes: %v", p))
	} else if got {
		rep.Violate("C19", "multisig-accepted/garbage", "random bytes verify as a multisignature")
	}
}

// ---- keybase ------------------------------------------------------------------------------------

type kbEntry struct {
	priv []byte // raw private key bytes
	pass string
	pub  crypto.PublicKey
	old  []string // passphrases that used to open this key (before an Update, or before it was deleted and re-imported)
}

var passes = []string{"", "p", "correct horse", "пароль-密码-🔑", string(bytes.Repeat([]byte("x"), 1024)), "pass2", " ",
	string(bytes.Repeat([]byte("x"), 1023)), string(bytes.Repeat([]byte("x"), 72)), string(bytes.Repeat([]byte("x"), 73)),
	string(bytes.Repeat([]byte("0123456789"), 8)) + "-tail-A", string(bytes.Repeat([]byte("0123456789"), 8)) + "-tail-B", string(bytes.Repeat([]byte("0123456789"), 8)),
	"Pass2"}

// kdfEquivalent: scrypt starts with PBKDF2-HMAC-SHA256 keyed by the passphrase, and HMAC zero-pads keys shorter than
// its 64-byte block: passphrases of at most 64 bytes that differ only in trailing NUL bytes derive the same key.
func kdfEquivalent(a, b string) bool {
	if len(a) > 64 || len(b) > 64 {
		return a == b
	}
	return strings.TrimRight(a, "\x00") == strings.TrimRight(b, "\x00")
}

// nearPass: a wrong passphrase that is close to the right one (a prefix, an extension, one byte changed at the end,
// the first 72 / 64 / 56 bytes).
func nearPass(r *sim.Rand, right string) string {
	for try := 0; try < 8; try++ {
		var p string
		switch r.Intn(6) {
		case 0:
			if len(right) > 0 {
				p = right[:len(right)-1]
			}
		case 1:
			p = right + "x"
		case 2:
			if len(right) > 0 {
				b := []byte(right)
				b[len(b)-1] ^= 1
				p = string(b)
			}
		case 3:
			if n := []int{72, 64, 56, 32}[r.Intn(4)]; len(right) > n {
				p = right[:n]
			}
		case 4:
			p = right + right
		case 5:
			if len(right) > 1 {
				p = right[1:]
			}
		}
		if p != right && (p != "" || right != "") {
			return p
		}
	}
	return right + "!"
}

// RunKeybase executes a program of nops operations against a fresh keybase and a model.
func RunKeybase(r *sim.Rand, nops int, lazy bool, rep Reporter) {
	var kb keys.Keybase
	var dir string
	if lazy {
		var err error
		dir, err = ioutil.TempDir("", "vkb")
		if err != nil {
			return
		}
		defer os.RemoveAll(dir)
		kb = keys.New("verifkb", dir)
		rep.Count("c19.kb.lazy_programs", 1)
	} else {
		kb = keys.NewInMemory()
		rep.Count("c19.kb.memory_programs", 1)
	}
	other := keys.NewInMemory()
	model := map[string]*kbEntry{}
	seed := r.U64()
	addrs := func() []string {
		var out []string
		for a := range model {
			out = append(out, a)
		}
		sort.Strings(out)
		return out
	}
	pick := func() (string, *kbEntry) {
		as := addrs()
		if len(as) == 0 {
			return "", nil
		}
		a := as[r.Intn(len(as))]
		return a, model[a]
	}
	formerPasses := map[string][]string{} // address -> passphrases of deleted incarnations
	wrongPass := func(e *kbEntry) string {
		if len(e.old) > 0 && r.Chance(50) {
			if p := e.old[r.Intn(len(e.old))]; !kdfEquivalent(p, e.pass) {
				rep.Count("c19.kb.former_passphrase_offered", 1)
				return p
			}
		}
		if r.Chance(50) {
			if p := nearPass(r, e.pass); !kdfEquivalent(p, e.pass) {
				rep.Count("c19.kb.near_miss_passphrases", 1)
				return p
			}
		}
		for {
			p := passes[r.Intn(len(passes))]
			if p != e.pass {
				return p
			}
		}
	}
	checkList := func(after string) {
		l, err := kb.List()
		if err != nil {
			rep.Violate("C19", "kb-list-error", fmt.Sprintf("List failed after %s: %v", after, err))
			return
		}
		var got []string
		for _, kp := range l {
			got = append(got, hexOf(kp.GetAddress()))
		}
		sort.Strings(got)
		want := addrs()
		if fmt.Sprint(got) != fmt.Sprint(want) {
			rep.Violate("C19", "kb-list-content", fmt.Sprintf("after %s List holds %v, model %v", after, got, want))
		}
	}
	// intact: the stored key is still the model's key under the model's passphrase
	intact := func(a string, e *kbEntry, after string) {
		ad, _ := sdk.AddressFromHex(a)
		pk, err := kb.ExportPrivateKeyObject(ad, e.pass)
		if err != nil {
			rep.Violate("C19", "kb-key-lost/"+after, fmt.Sprintf("after %s the key %s no longer opens with its passphrase: %v", after, a, err))
			return
		}
		if !bytes.Equal(pk.RawBytes(), e.priv) {
			rep.Violate("C19", "kb-key-altered/"+after, fmt.Sprintf("after %s the key %s changed", after, a))
		}
	}
	for i := 0; i < nops; i++ {
		op := r.Intn(12)
		rep.Count("c19.kb.ops", 1)
		switch op {
		case 0, 1: // create
			pass := passes[r.Intn(len(passes))]
			kp, err := kb.Create(pass)
			if err != nil {
				rep.Violate("C19", "kb-create-error", fmt.Sprintf("Create failed: %v", err))
				continue
			}
			a := hexOf(kp.GetAddress())
			pk, err := kb.ExportPrivateKeyObject(kp.GetAddress(), pass)
			if err != nil {
				rep.Violate("C19", "kb-created-key-unusable", fmt.Sprintf("a key just created does not open with its passphrase: %v", err))
				continue
			}
			model[a] = &kbEntry{priv: pk.RawBytes(), pass: pass, pub: kp.PublicKey}
			checkList("create")
		case 2: // import a raw key object
			act := sim.NewEdActor(seed, r.Intn(6))
			var raw [64]byte
			copy(raw[:], act.Priv.RawBytes())
			pass := passes[r.Intn(len(passes))]
			_, exists := model[act.AddrHex()]
			kp, err := kb.ImportPrivateKeyObject(raw, pass)
			switch {
			case exists && err == nil:
				rep.Violate("C19", "kb-import-overwrites", "ImportPrivateKeyObject overwrote an existing key")
			case !exists && err != nil:
				rep.Violate("C19", "kb-import-error", fmt.Sprintf("ImportPrivateKeyObject failed: %v", err))
			case !exists:
				if hexOf(kp.GetAddress()) != act.AddrHex() {
					rep.Violate("C19", "kb-import-address", "imported key has another address")
				}
				model[act.AddrHex()] = &kbEntry{priv: act.Priv.RawBytes(), pass: pass, pub: act.Pub, old: formerPasses[act.AddrHex()]}
				for _, fp := range formerPasses[act.AddrHex()] {
					if !kdfEquivalent(fp, pass) {
						if _, _, err := kb.Sign(kp.GetAddress(), fp, []byte("after-reimport")); err == nil {
							rep.Violate("C19", "kb-old-pass-still-works/after-delete-and-reimport", "a passphrase of a deleted incarnation of the key signs for the re-imported key")
						}
						rep.Count("c19.kb.sign_with_passphrase_of_deleted_incarnation", 1)
					}
				}
			case exists:
				intact(act.AddrHex(), model[act.AddrHex()], "refused-import")
			}
			checkList("import-object")
		case 3, 4: // export armored + import elsewhere: same key, same address
			a, e := pick()
			if e == nil {
				continue
			}
			ad, _ := sdk.AddressFromHex(a)
			np := passes[r.Intn(len(passes))]
			if r.Chance(30) {
				wp := wrongPass(e)
				hint := []string{"hint", "", ""}[r.Intn(3)]
				if r.Chance(40) {
					np = wp // the same (wrong) passphrase in both roles
				}
				arm, err := kb.ExportPrivKeyEncryptedArmor(ad, wp, np, hint)
				if err == nil {
					rep.Violate("C19", "kb-wrong-pass-yields-key/export", fmt.Sprintf("export with a wrong passphrase returned armor of length %d", len(arm)))
				}
				rep.Count("c19.kb.wrong_pass", 1)
				intact(a, e, "wrong-pass-export")
				continue
			}
			if r.Chance(30) {
				np = e.pass
			}
			arm, err := kb.ExportPrivKeyEncryptedArmor(ad, e.pass, np, genHint(r))
			if err != nil {
				rep.Violate("C19", "kb-export-error", fmt.Sprintf("export with the right passphrase failed: %v", err))
				continue
			}
			tgt := other
			if _, err := tgt.Get(ad); err == nil {
				tgt = keys.NewInMemory()
			}
			// wrong passphrase on the armor never yields a key
			if r.Chance(30) {
				wp2 := passes[r.Intn(len(passes))]
				if wp2 != np {
					if _, err := keys.NewInMemory().ImportPrivKey(arm, wp2, "x"); err == nil {
						rep.Violate("C19", "kb-wrong-pass-yields-key/import", "importing an armored key with a wrong passphrase succeeded")
					}
					rep.Count("c19.kb.wrong_pass", 1)
				}
			}
			ip := "second" // the passphrase protecting the key in the target keybase
			if r.Bool() {
				ip = passes[r.Intn(len(passes))]
			}
			tgt = keys.NewInMemory()
			kp, err := tgt.ImportPrivKey(arm, np, ip)
			if err != nil {
				rep.Violate("C19", "kb-import-of-export-fails", fmt.Sprintf("importing the export under the right passphrase failed: %v", err))
				continue
			}
			rep.Count("c19.kb.export_import_roundtrips", 1)
			if hexOf(kp.GetAddress()) != a {
				rep.Violate("C19", "kb-roundtrip-address", fmt.Sprintf("export+import changed the address: %s vs %s", hexOf(kp.GetAddress()), a))
			}
			pk2, err := tgt.ExportPrivateKeyObject(kp.GetAddress(), ip)
			if err != nil || !bytes.Equal(pk2.RawBytes(), e.priv) {
				rep.Violate("C19", "kb-roundtrip-key", fmt.Sprintf("export+import did not yield the same private key under the passphrase given to the import (%d bytes; armor passphrase %d bytes): err %v", len(ip), len(np), err))
			}
			if !kdfEquivalent(ip, np) {
				// the armor's transport passphrase is not the key's passphrase in the target keybase
				if _, err := tgt.ExportPrivateKeyObject(kp.GetAddress(), np); err == nil {
					rep.Violate("C19", "kb-import-keeps-armor-passphrase", fmt.Sprintf("after ImportPrivKey(armor, %d-byte armor passphrase, %d-byte new passphrase) the armor passphrase opens the key", len(np), len(ip)))
				}
			}
		case 5: // update
			a, e := pick()
			if e == nil {
				continue
			}
			ad, _ := sdk.AddressFromHex(a)
			np := passes[r.Intn(len(passes))]
			if r.Chance(40) {
				if err := kb.Update(ad, wrongPass(e), np); err == nil {
					rep.Violate("C19", "kb-wrong-pass-accepted/update", "Update with a wrong old passphrase succeeded")
				}
				rep.Count("c19.kb.wrong_pass", 1)
				intact(a, e, "wrong-pass-update")
				continue
			}
			if r.Bool() {
				// the key was in use under its current passphrase right before the change
				if _, _, err := kb.Sign(ad, e.pass, []byte("before-update")); err != nil {
					rep.Violate("C19", "kb-sign-error", fmt.Sprintf("Sign with the right passphrase failed: %v", err))
				}
			}
			if err := kb.Update(ad, e.pass, np); err != nil {
				rep.Violate("C19", "kb-update-error", fmt.Sprintf("Update with the right passphrase failed: %v", err))
				continue
			}
			old := e.pass
			e.old = append(e.old, old)
			e.pass = np
			intact(a, e, "update")
			if old != np {
				if _, err := kb.ExportPrivateKeyObject(ad, old); err == nil {
					rep.Violate("C19", "kb-old-pass-still-works", "after Update the old passphrase still opens the key")
				}
				if !kdfEquivalent(old, np) {
					if _, _, err := kb.Sign(ad, old, []byte("after-update")); err == nil {
						rep.Violate("C19", "kb-old-pass-still-works/sign", "after Update the old passphrase still signs")
					}
					rep.Count("c19.kb.sign_with_replaced_passphrase", 1)
				}
			}
		case 6: // delete
			a, e := pick()
			if e == nil {
				continue
			}
			ad, _ := sdk.AddressFromHex(a)
			if r.Chance(50) {
				if err := kb.Delete(ad, wrongPass(e)); err == nil {
					rep.Violate("C19", "kb-wrong-pass-accepted/delete", "Delete with a wrong passphrase succeeded")
				}
				rep.Count("c19.kb.wrong_pass", 1)
				intact(a, e, "wrong-pass-delete")
				checkList("refused-delete")
				continue
			}
			if r.Bool() {
				kb.Sign(ad, e.pass, []byte("before-delete"))
			}
			if err := kb.Delete(ad, e.pass); err != nil {
				rep.Violate("C19", "kb-delete-error", fmt.Sprintf("Delete with the right passphrase failed: %v", err))
				continue
			}
			formerPasses[a] = append(append(formerPasses[a], e.old...), e.pass)
			delete(model, a)
			if _, err := kb.Get(ad); err == nil {
				rep.Violate("C19", "kb-delete-no-effect", "key still present after Delete")
			}
			checkList("delete")
		case 7, 8: // sign
			a, e := pick()
			if e == nil {
				continue
			}
			ad, _ := sdk.AddressFromHex(a)
			m := genMsg(r)
			if len(m) > 4096 {
				m = m[:4096]
			}
			if r.Chance(4) && len(e.pass) < 64 {
				// the one family of distinct passphrases that the KDF cannot tell apart (probed read-only)
				if _, _, err := kb.Sign(ad, e.pass+"\x00", m); err == nil {
					rep.Violate("C19", "kb-wrong-pass-yields-key/trailing-nul-equivalent", fmt.Sprintf("Sign accepts the %d-byte passphrase plus a trailing NUL byte for a key protected by the %d-byte one", len(e.pass), len(e.pass)))
				}
				rep.Count("c19.kb.trailing_nul_probes", 1)
				continue
			}
			if r.Chance(35) {
				if wp := wrongPass(e); true {
					if s, _, err := kb.Sign(ad, wp, m); err == nil {
						rep.Violate("C19", "kb-wrong-pass-yields-key/sign", fmt.Sprintf("Sign with a wrong passphrase (%d bytes %q..., right one %d bytes %q...) returned a signature of %d bytes", len(wp), cut(wp), len(e.pass), cut(e.pass), len(s)))
					}
				}
				rep.Count("c19.kb.wrong_pass", 1)
				continue
			}
			s, pub, err := kb.Sign(ad, e.pass, m)
			if err != nil {
				rep.Violate("C19", "kb-sign-error", fmt.Sprintf("Sign with the right passphrase failed: %v", err))
				continue
			}
			rep.Count("c19.kb.signatures", 1)
			if !samePub(pub, e.pub) || !mon.IndepVerify(e.pub, m, s) {
				rep.Violate("C19", "kb-signature-invalid", "a keybase signature does not verify under the listed public key")
			}
		case 9: // get / unknown
			if r.Bool() {
				if _, err := kb.Get(sdk.Address(r.Bytes(24)[:20])); err == nil {
					rep.Violate("C19", "kb-get-unknown", "Get of an unknown address succeeded")
				}
			} else if a, e := pick(); e != nil {
				ad, _ := sdk.AddressFromHex(a)
				kp, err := kb.Get(ad)
				if err != nil || !samePub(kp.PublicKey, e.pub) {
					rep.Violate("C19", "kb-get", fmt.Sprintf("Get of a stored key failed or returned another key: %v", err))
				}
			}
		case 10: // coinbase
			if a, e := pick(); e != nil {
				ad, _ := sdk.AddressFromHex(a)
				if err := kb.SetCoinbase(ad); err != nil {
					rep.Violate("C19", "kb-setcoinbase", fmt.Sprintf("SetCoinbase of a stored key failed: %v", err))
				} else if cb, err := kb.GetCoinbase(); err != nil || hexOf(cb.GetAddress()) != a {
					rep.Violate("C19", "kb-getcoinbase", fmt.Sprintf("GetCoinbase returned %s (err %v), set %s", hexOf(cb.GetAddress()), err, a))
				}
			}
		case 11:
			checkList("probe")
		}
	}
	for _, a := range addrs() {
		intact(a, model[a], "end-of-program")
	}
}

func cut(s string) string {
	if len(s) > 24 {
		return s[:24]
	}
	return s
}

// CheckArmor: encrypt-and-armor followed by unarmor-and-decrypt returns the same key (type and bytes) for every key type,
// including private keys whose raw bytes happen to be printable / ASCII hex digits; a wrong passphrase yields an error.
func CheckArmor(r *sim.Rand, rep Reporter) {
	var raw []byte
	kind := ""
	switch r.Intn(5) {
	case 0:
		raw, kind = crypto.GenerateSecp256k1PrivKey().RawBytes(), "secp256k1-random"
	case 1:
		raw, kind = crypto.GenerateEd25519PrivKey().RawBytes(), "ed25519-random"
	case 2:
		// a secp256k1 secret made of ASCII hex digits only
		raw = make([]byte, 32)
		for i := range raw {
			raw[i] = "0123456789abcdefABCDEF"[r.Intn(22)]
		}
		kind = "secp256k1-ascii-hex-bytes"
	case 3:
		// printable ASCII, JSON-ish and NUL-containing secrets
		raw = []byte([]string{"{\"a\":\"b\"}________________________", "\x00\x00\x00\x00\x00\x00\x00\x00\x00\x00\x00\x00\x00\x00\x00\x00\x00\x00\x00\x00\x00\x00\x00\x00\x00\x00\x00\x00\x00\x00\x00\x01", "                               1"}[r.Intn(3)])
		kind = "secp256k1-printable-bytes"
	default:
		act := sim.NewSecpActor(r.U64(), r.Intn(100))
		raw, kind = act.Priv.RawBytes(), "secp256k1-derived"
	}
	pk, err := crypto.NewPrivateKeyBz(raw)
	if err != nil {
		return
	}
	pass := passes[r.Intn(len(passes))]
	rep.Count("c19.armor.cases", 1)
	rep.Count("c19.armor."+kind, 1)
	var arm string
	if p := catch(func() { arm, err = mintkey.EncryptArmorPrivKey(pk, pass, genHint(r)) }); p != nil || err != nil {
		rep.Violate("C19", "armor-encrypt-error/"+kind, fmt.Sprintf("EncryptArmorPrivKey failed: %v %v", p, err))
		return
	}
	var back crypto.PrivateKey
	if p := catch(func() { back, err = mintkey.UnarmorDecryptPrivKey(arm, pass) }); p != nil || err != nil {
		rep.Violate("C19", "armor-roundtrip-error/"+kind, fmt.Sprintf("a %d-byte key (%s) armored under a passphrase does not open under that passphrase: %v %v", len(raw), kind, p, err))
		return
	}
	if !bytes.Equal(back.RawBytes(), raw) || fmt.Sprintf("%T", back) != fmt.Sprintf("%T", pk) {
		rep.Violate("C19", "armor-roundtrip-key/"+kind, fmt.Sprintf("armor round trip turned a %T of %d bytes into a %T of %d bytes", pk, len(raw), back, len(back.RawBytes())))
	}
	if r.Chance(25) {
		// the armor of either key type goes into a keybase and comes back as the same key
		kb := keys.NewInMemory()
		ip := passes[r.Intn(len(passes))]
		var kp keys.KeyPair
		if p := catch(func() { kp, err = kb.ImportPrivKey(arm, pass, ip) }); p != nil || err != nil {
			rep.Violate("C19", "kb-import-of-armor-fails/"+kind, fmt.Sprintf("importing the armor of a %T under the right passphrase failed: %v %v", pk, p, err))
			return
		}
		rep.Count("c19.armor.imports."+strings.SplitN(kind, "-", 2)[0], 1)
		var k3 crypto.PrivateKey
		if p := catch(func() { k3, err = kb.ExportPrivateKeyObject(kp.GetAddress(), ip) }); p != nil || err != nil || !bytes.Equal(k3.RawBytes(), raw) {
			rep.Violate("C19", "kb-import-of-armor-key/"+kind, fmt.Sprintf("the imported armor of a %T does not come back as the same key: %v %v", pk, p, err))
		}
		if !samePub(kp.PublicKey, pk.PublicKey()) {
			rep.Violate("C19", "kb-import-of-armor-pubkey/"+kind, fmt.Sprintf("the imported armor of a %T is stored with another public key", pk))
		}
	}
	wp := nearPass(r, pass)
	if !kdfEquivalent(wp, pass) {
		var k2 crypto.PrivateKey
		if p := catch(func() { k2, err = mintkey.UnarmorDecryptPrivKey(arm, wp) }); p == nil && err == nil {
			rep.Violate("C19", "armor-wrong-pass-yields-key/"+kind, fmt.Sprintf("a wrong passphrase (%d bytes, right one %d bytes) opened the armor and returned a %T", len(wp), len(pass), k2))
		}
	}
}


// genHint: passphrase hints are free text: control characters, quotes, backslashes, non-BMP runes, invalid UTF-8.
func genHint(r *sim.Rand) string {
	switch r.Intn(8) {
	case 0:
		return ""
	case 1:
		return "hint"
	case 2:
		return "bell\a tab\t vt\v us\x1f del\x7f"
	case 3:
		return "quote\" backslash\\ slash/ <html>&amp;"
	case 4:
		return "emoji \U0001F511 \U0010FFFF nul\x00"
	case 5:
		return "bad utf8 \xff\xfe end"
	case 6:
		return string(r.Bytes(1 + r.Intn(40)))
	default:
		return "line1\nline2\r\n\u2028"
	}
}
