// Package mon holds the behavioural monitors for the application-level properties.
// A monitor is a deterministic function of the call records produced by sim.Env
// (request, response, snapshot before, snapshot after); it never touches the application.
package mon

import (
	"fmt"
	"math/big"
	"sort"

	"verif/harness/sim"

	sdk "github.com/pokt-network/posmint/types"
	govTypes "github.com/pokt-network/posmint/x/gov/types"
	posTypes "github.com/pokt-network/posmint/x/pos/types"
)

var (
	PoolAddr = hexs(sim.ModuleAddress(posTypes.StakedPoolName))
	FeeAddr  = hexs(sim.ModuleAddress("fee_collector"))
	PosAddr  = hexs(sim.ModuleAddress(posTypes.ModuleName))
	DAOAddr  = hexs(sim.ModuleAddress(govTypes.DAOAccountName))
)

func hexs(b []byte) string { return fmt.Sprintf("%x", b) }

func bi(n int64) *big.Int { return big.NewInt(n) }

func sub(a, b *big.Int) *big.Int { return new(big.Int).Sub(a, b) }
func add(a, b *big.Int) *big.Int { return new(big.Int).Add(a, b) }

var million = big.NewInt(1000000)

func powerOf(tokens *big.Int) int64 { return new(big.Int).Quo(tokens, million).Int64() }

// sumAccounts returns Σ balances.
func sumAccounts(v *sim.View) *big.Int {
	t := new(big.Int)
	for _, a := range v.Accounts {
		t.Add(t, a.Bal)
	}
	return t
}

func sumAwards(v *sim.View) *big.Int {
	t := new(big.Int)
	for _, a := range v.Awards {
		t.Add(t, a)
	}
	return t
}

// stakeNotUnstaked returns Σ tokens of validators whose status is staked or unstaking.
func stakeNotUnstaked(v *sim.View) *big.Int {
	t := new(big.Int)
	for _, x := range v.Vals {
		if x.Status != 0 {
			t.Add(t, x.Tokens)
		}
	}
	return t
}

// burnedInBegin = Σ_v max(0, tokens_pre − tokens_post): no payout happens in BeginBlock, so a stake decrease is a burn.
func stakeDecrease(pre, post *sim.View) *big.Int {
	t := new(big.Int)
	for a, p := range pre.Vals {
		q, ok := post.Vals[a]
		if !ok {
			t.Add(t, p.Tokens)
			continue
		}
		if q.Tokens.Cmp(p.Tokens) < 0 {
			t.Add(t, sub(p.Tokens, q.Tokens))
		}
	}
	return t
}

func sortedKeys(m map[string]*sim.ValView) []string {
	out := make([]string, 0, len(m))
	for k := range m {
		out = append(out, k)
	}
	sort.Strings(out)
	return out
}

// accepted reports whether the ante handler let the transaction through.
// CheckTx: code 0 (handlers are skipped in check mode). DeliverTx: code 0, or the fee reached the collector.
func accepted(c *sim.Call) bool {
	switch c.Kind {
	case "check":
		return c.Panic == "" && c.ResCheck.Code == 0
	case "deliver":
		if c.Panic != "" {
			return false
		}
		if c.ResDeliver.Code == 0 {
			return true
		}
		return c.Post.View.Bal(FeeAddr).Cmp(c.Pre.View.Bal(FeeAddr)) > 0
	}
	return false
}

func deliverOK(c *sim.Call) bool { return c.Kind == "deliver" && c.Panic == "" && c.ResDeliver.Code == 0 }

// eventAttrs collects events of a type as attribute maps, in order.
func eventAttrs(evs []sdkEvent, typ string) []map[string]string { return nil }

type sdkEvent struct{}

var _ = sdk.ZeroInt

// checkAwardQueue compares the stored award queue with what the downstream module asked for through
// AwardCoinsTo during this call (the request log, not the stored value, is the reference): after EndBlock every entry is
// its previous value plus the amounts requested in this call; after BeginBlock (pos mints first, the downstream module
// runs after it) it is exactly what was requested in this call.
func checkAwardQueue(e *sim.Env, c *sim.Call, prop string) {
	if c.Panic != "" || c.Post.View == nil || c.Pre.View == nil || (c.Kind != "begin" && c.Kind != "end") {
		return
	}
	want := map[string]*big.Int{}
	if c.Kind == "end" {
		for a, q := range c.Pre.View.Awards {
			want[a] = new(big.Int).Set(q)
		}
	}
	n := 0
	for _, x := range c.Entry.Ext {
		if x.Kind == "award" && x.Phase == c.Kind {
			k := hexs(x.Addr)
			if want[k] == nil {
				want[k] = new(big.Int)
			}
			want[k].Add(want[k], bi(x.Amount))
			n++
		}
	}
	if n > 0 {
		e.Count(lowerProp(prop) + ".award_requests_checked_against_queue")
	}
	keys := map[string]bool{}
	for a := range want {
		keys[a] = true
	}
	for a := range c.Post.View.Awards {
		keys[a] = true
	}
	for a := range keys {
		w, g := want[a], c.Post.View.Awards[a]
		if w == nil {
			w = new(big.Int)
		}
		if g == nil {
			g = new(big.Int)
		}
		if w.Cmp(g) != 0 {
			e.Violate(prop, "award-queue-ne-requested/"+c.Kind, fmt.Sprintf("%s@%d: award queue entry of %s holds %v, the amounts requested so far sum to %v", c.Kind, c.H, a, g, w), c)
		}
	}
}

func lowerProp(p string) string { return "c" + p[1:] }
