package mon

import (
	"fmt"
	"os"

	"verif/harness/sim"
)

// Trace prints a human-readable account of every call (debugging aid for replays: VCHECK_TRACE=1).
type Trace struct{}

func (Trace) OnCall(e *sim.Env, c *sim.Call) {
	w := os.Stdout
	switch c.Kind {
	case "deliver", "check":
		code := c.ResDeliver.Code
		if c.Kind == "check" {
			code = c.ResCheck.Code
		}
		fmt.Fprintf(w, "  [%d] h%d %s %-44s code=%d signer=%.8s panic=%q\n", c.Entry.Seq, c.H, c.Kind, c.Entry.Label, code, c.Meta.Signer, firstLine(c.Panic))
	case "begin":
		fmt.Fprintf(w, "[%d] h%d begin t=%d prop=%.8s votes=%v ev=%v ext=%v panic=%q\n", c.Entry.Seq, c.H, c.Entry.Begin.Time, c.Entry.Begin.Proposer, c.Entry.Begin.Votes, c.Entry.Begin.Evidence, c.Entry.Ext, firstLine(c.Panic))
		fmt.Fprintf(w, "    pre awards=%v burns=%v\n", c.Pre.View.Awards, c.Pre.View.Burns)
		if cp := sim.ParamsOf(c.Pre.View); true {
			fmt.Fprintf(w, "    params min=%d window=%d minSigned=%v fracDT=%v fracDS=%v unstaking=%v jail=%v\n", cp.Min, cp.Window, cp.MinSigned, cp.FracDT, cp.FracDS, cp.Unstaking, cp.JailDur)
		}
		for _, se := range slashEvents(c.ResBegin.Events) {
			fmt.Fprintf(w, "    slash %v\n", se)
		}
	case "end":
		fmt.Fprintf(w, "  [%d] h%d end ext=%v panic=%q applyErr=%v\n", c.Entry.Seq, c.H, c.Entry.Ext, firstLine(c.Panic), c.ApplyErr)
		for _, u := range c.ResEnd.ValidatorUpdates {
			fmt.Fprintf(w, "    update %x power=%d\n", u.PubKey.Data[:6], u.Power)
		}
	case "query":
		fmt.Fprintf(w, "  [%d] query %s code=%d panic=%q\n", c.Entry.Seq, c.QReq.Path, c.ResQuery.Code, firstLine(c.Panic))
	default:
		fmt.Fprintf(w, "  [%d] h%d %s panic=%q\n", c.Entry.Seq, c.H, c.Kind, firstLine(c.Panic))
	}
	if c.Post.View == nil || c.Pre.View == nil {
		return
	}
	if c.Kind == "begin" || c.Kind == "end" || c.Kind == "deliver" || c.Kind == "init" {
		for _, a := range sortedKeys(c.Post.View.Vals) {
			v := c.Post.View.Vals[a]
			p, ok := c.Pre.View.Vals[a]
			if !ok || p.Status != v.Status || p.Jailed != v.Jailed || p.Tokens.Cmp(v.Tokens) != 0 {
				fmt.Fprintf(w, "      val %.8s status=%s jailed=%v tokens=%v until=%d\n", a, statusName[v.Status], v.Jailed, v.Tokens, v.Unstaking.Unix())
			}
		}
		for a := range c.Pre.View.Vals {
			if _, ok := c.Post.View.Vals[a]; !ok {
				fmt.Fprintf(w, "      val %.8s REMOVED\n", a)
			}
		}
		if d := sub(c.Post.View.Bal(PoolAddr), c.Pre.View.Bal(PoolAddr)); d.Sign() != 0 {
			fmt.Fprintf(w, "      pool %+v (now %v)\n", d, c.Post.View.Bal(PoolAddr))
		}
		if d := sub(c.Post.View.Supply, c.Pre.View.Supply); d.Sign() != 0 {
			fmt.Fprintf(w, "      supply %+v\n", d)
		}
	}
}
