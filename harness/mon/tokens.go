package mon

import (
	"fmt"
	"math/big"

	"verif/harness/sim"

	govTypes "github.com/pokt-network/posmint/x/gov/types"
	posTypes "github.com/pokt-network/posmint/x/pos/types"
)

// ---------------------------------------------------------------------------------------------
// C02 — supply == Σ balances; supply moves only by award mint / slash burn / DAO burn.

type C02 struct{}

func (C02) OnCall(e *sim.Env, c *sim.Call) {
	post := c.Post.View
	if post == nil || (c.Kind == "init" && c.Panic != "") {
		return
	}
	// invariant at every call boundary
	if s := sumAccounts(post); s.Cmp(post.Supply) != 0 {
		e.Violate("C02", "supply-ne-sum/"+c.Kind, fmt.Sprintf("after %s@%d: recorded supply %v != sum of balances %v (diff %v)", c.Kind, c.H, post.Supply, s, sub(post.Supply, s)), c)
	}
	// the same for the second denomination (nothing mints or burns it: its supply is what genesis stated)
	s2 := new(big.Int)
	for _, a := range post.Accounts {
		if a.Bal2 != nil {
			s2.Add(s2, a.Bal2)
		}
	}
	if post.Supply2 != nil && s2.Cmp(post.Supply2) != 0 {
		e.Violate("C02", "supply-ne-sum/second-denomination/"+c.Kind, fmt.Sprintf("after %s@%d: recorded supply of %s %v != sum of balances %v", c.Kind, c.H, sim.SecondDenom, post.Supply2, s2), c)
	}
	if c.Pre.View != nil && c.Pre.View.Supply2 != nil && post.Supply2 != nil && c.Kind != "init" && !c.Reopened && c.Pre.View.Supply2.Cmp(post.Supply2) != 0 {
		e.Violate("C02", "second-denomination-supply-changed/"+c.Kind, fmt.Sprintf("%s@%d: supply of %s moved from %v to %v", c.Kind, c.H, sim.SecondDenom, c.Pre.View.Supply2, post.Supply2), c)
	}
	for _, a := range post.Accounts {
		if a.Negative || a.Bal.Sign() < 0 {
			e.Violate("C02", "negative-balance", fmt.Sprintf("account %s has a negative balance %v after %s@%d", a.Addr, a.Bal, c.Kind, c.H), c)
		}
		if a.Other {
			e.Violate("C02", "foreign-denom", fmt.Sprintf("account %s holds a foreign denomination after %s@%d", a.Addr, c.Kind, c.H), c)
		}
	}
	if c.Kind == "init" || c.Reopened {
		return
	}
	pre := c.Pre.View
	d := sub(post.Supply, pre.Supply)
	e.Count("c02.transitions")
	checkAwardQueue(e, c, "C02")
	switch c.Kind {
	case "begin":
		awards := sumAwards(pre)
		burned := stakeDecrease(pre, post)
		want := sub(awards, burned)
		if awards.Sign() > 0 {
			e.Count("c02.mint_blocks")
		}
		if burned.Sign() > 0 {
			e.Count("c02.burn_blocks")
		}
		if d.Cmp(want) != 0 {
			sig := "begin-delta"
			if awards.Sign() > 0 && burned.Sign() == 0 && d.Cmp(new(big.Int).Mul(awards, big.NewInt(2))) == 0 {
				sig = "begin-delta/award-minted-twice"
			}
			e.Violate("C02", sig, fmt.Sprintf("BeginBlock@%d: supply moved by %v, expected awards %v - burned %v = %v", c.H, d, awards, burned, want), c)
		}
	case "deliver":
		want := new(big.Int)
		if deliverOK(c) && c.Meta.Decoded {
			if m, ok := c.Meta.Tx.Msg.(govTypes.MsgDAOTransfer); ok && m.Action == govTypes.DAOBurnString {
				want = new(big.Int).Neg(m.Amount.BigInt())
				e.Count("c02.dao_burns")
			}
		}
		if d.Cmp(want) != 0 {
			e.Violate("C02", "deliver-delta/"+c.Meta.MsgType, fmt.Sprintf("DeliverTx(%s)@%d code %d: supply moved by %v, expected %v", c.Entry.Label, c.H, c.ResDeliver.Code, d, want), c)
		}
	default:
		if d.Sign() != 0 {
			e.Violate("C02", c.Kind+"-delta", fmt.Sprintf("%s@%d moved supply by %v", c.Kind, c.H, d), c)
		}
	}
}

// ---------------------------------------------------------------------------------------------
// C04 — staked pool == Σ stake of staked/unstaking validators (+ direct sends).

type C04 struct {
	Direct *big.Int // coins that reached the pool address other than by staking
}

func NewC04() *C04 { return &C04{Direct: new(big.Int)} }

func (m *C04) OnCall(e *sim.Env, c *sim.Call) {
	post := c.Post.View
	if post == nil || (c.Kind == "init" && c.Panic != "") {
		return
	}
	if c.Reopened {
		return // history over; Direct may include uncommitted sends of the interrupted block
	}
	pre := c.Pre.View
	// bookkeeping of direct transfers to the pool address
	if deliverOK(c) && c.Meta.Decoded {
		switch msg := c.Meta.Tx.Msg.(type) {
		case posTypes.MsgSend:
			if hexs(msg.ToAddress) == PoolAddr {
				m.Direct.Add(m.Direct, msg.Amount.BigInt())
				e.Count("c04.direct_sends")
			}
			if hexs(msg.FromAddress) == PoolAddr {
				m.Direct.Sub(m.Direct, msg.Amount.BigInt())
			}
		case govTypes.MsgDAOTransfer:
			if msg.Action == govTypes.DAOTransferString && hexs(msg.ToAddress) == PoolAddr {
				m.Direct.Add(m.Direct, msg.Amount.BigInt())
				e.Count("c04.direct_sends")
			}
		}
	}
	if c.Kind == "begin" && c.Panic == "" {
		if a, ok := pre.Awards[PoolAddr]; ok { // an award addressed to the pool itself stays in the pool
			m.Direct.Add(m.Direct, a)
		}
	}
	want := add(stakeNotUnstaked(post), m.Direct)
	got := post.Bal(PoolAddr)
	e.Count("c04.invariant_checks")
	if got.Cmp(want) != 0 {
		sig := "pool-ne-stake/" + c.Kind
		if c.Kind == "begin" && sumAwards(pre).Sign() > 0 && sub(got, want).Cmp(sumAwards(pre)) == 0 {
			sig = "pool-ne-stake/begin/award-left-in-pool"
		}
		e.Violate("C04", sig, fmt.Sprintf("after %s@%d (%s): pool holds %v, validators staked/unstaking hold %v + direct %v (diff %v)",
			c.Kind, c.H, c.Entry.Label, got, stakeNotUnstaked(post), m.Direct, sub(got, want)), c)
	}
	// per-event deltas
	if deliverOK(c) && c.Meta.Decoded {
		if msg, ok := c.Meta.Tx.Msg.(posTypes.MsgStake); ok {
			addr := c.Meta.Signer
			amt := msg.Value.BigInt()
			preTok, postTok := new(big.Int), new(big.Int)
			if v, ok := pre.Vals[addr]; ok {
				preTok = v.Tokens
			}
			if v, ok := post.Vals[addr]; ok {
				postTok = v.Tokens
			}
			e.Count("c04.stakes")
			dAcc := sub(post.Bal(addr), pre.Bal(addr))
			dPool := sub(post.Bal(PoolAddr), pre.Bal(PoolAddr))
			wantAcc := new(big.Int).Neg(add(amt, bi(c.Meta.Fee)))
			if dAcc.Cmp(wantAcc) != 0 || dPool.Cmp(amt) != 0 || sub(postTok, preTok).Cmp(amt) != 0 {
				e.Violate("C04", "stake-delta", fmt.Sprintf("stake of %v by %s@%d: account %v (want %v), pool %+v (want +%v), record %+v (want +%v)",
					amt, addr, c.H, dAcc, wantAcc, dPool, amt, sub(postTok, preTok), amt), c)
			}
		}
	}
	if c.Kind == "end" && c.Panic == "" {
		paid := new(big.Int)
		for a, pv := range pre.Vals {
			if _, still := post.Vals[a]; still || pv.Status != 1 {
				continue
			}
			e.Count("c04.maturities")
			paid.Add(paid, pv.Tokens)
			if d := sub(post.Bal(a), pre.Bal(a)); d.Cmp(pv.Tokens) != 0 {
				e.Violate("C04", "payout-ne-stake", fmt.Sprintf("validator %s matured @%d: account moved by %v, recorded stake %v", a, c.H, d, pv.Tokens), c)
			}
		}
		if d := sub(pre.Bal(PoolAddr), post.Bal(PoolAddr)); d.Cmp(paid) != 0 {
			e.Violate("C04", "pool-payout", fmt.Sprintf("EndBlock@%d: pool moved by -%v, matured stake %v", c.H, d, paid), c)
		}
	}
}

// ---------------------------------------------------------------------------------------------
// C10 — fees of block H go to H's proposer at BeginBlock(H+1); awards are minted exactly once.

type C10 struct {
	feesLedger *big.Int // Σ fees of txs whose ante passed in the current block (from collector deltas per DeliverTx)
	// prevProposer: the proposer address of the previous BeginBlock request (the monitor's own record; the stored
	// "previous proposer" is what the application made of it); known=false until one BeginBlock was seen
	prevProposer      string
	prevProposerKnown bool
}

func NewC10() *C10 { return &C10{feesLedger: new(big.Int)} }

func (m *C10) OnCall(e *sim.Env, c *sim.Call) {
	if c.Post.View == nil || c.Kind == "init" || c.Reopened {
		return
	}
	pre, post := c.Pre.View, c.Post.View
	if c.Kind == "end" {
		checkAwardQueue(e, c, "C10")
	}
	switch c.Kind {
	case "deliver":
		d := sub(post.Bal(FeeAddr), pre.Bal(FeeAddr))
		// a successful send / DAO transfer addressed to the collector is not a fee
		if deliverOK(c) && c.Meta.Decoded {
			switch msg := c.Meta.Tx.Msg.(type) {
			case posTypes.MsgSend:
				if hexs(msg.ToAddress) == FeeAddr {
					d = sub(d, msg.Amount.BigInt())
				}
			case govTypes.MsgDAOTransfer:
				if msg.Action == govTypes.DAOTransferString && hexs(msg.ToAddress) == FeeAddr {
					d = sub(d, msg.Amount.BigInt())
				}
			}
		}
		if d.Sign() > 0 {
			e.Count("c10.fee_txs")
		}
	case "begin":
		defer func() {
			if c.Entry.Begin != nil {
				m.prevProposer, m.prevProposerKnown = lower(c.Entry.Begin.Proposer), true
			}
		}()
		if c.Panic != "" {
			return
		}
		awards := pre.Awards
		fees := new(big.Int)
		recipient := ""
		if c.H > 1 {
			fees = new(big.Int).Set(pre.Bal(FeeAddr))
			prop := pre.Proposer
			if m.prevProposerKnown {
				if prop != m.prevProposer {
					e.Violate("C10", "stored-proposer-ne-requested", fmt.Sprintf("BeginBlock@%d: the fees of block %d belong to its proposer %q (from that block's header); the application recorded %q", c.H, c.H-1, m.prevProposer, prop), c)
				}
				prop = m.prevProposer
			}
			if _, ok := pre.Vals[prop]; ok && prop != "" {
				recipient = prop
				e.Count("c10.fee_blocks_to_validator")
			} else {
				recipient = PosAddr
				e.Count("c10.fee_blocks_unknown_proposer")
			}
			if fees.Sign() > 0 {
				e.Count("c10.nonzero_fee_blocks")
			}
			left := post.Bal(FeeAddr)
			if a, ok := awards[FeeAddr]; ok { // an award addressed to the collector itself is minted after the fees left
				left = sub(left, a)
			}
			if left.Sign() != 0 {
				e.Violate("C10", "collector-not-emptied", fmt.Sprintf("BeginBlock@%d: fee collector still holds %v", c.H, post.Bal(FeeAddr)), c)
			}
		}
		if len(awards) > 0 {
			e.Count("c10.award_blocks")
		}
		// every account except the staked pool (C04/C07 judge the pool): Δ == award(addr) + fees if recipient − fees if collector
		seen := map[string]bool{}
		check := func(addr string) {
			if seen[addr] || addr == PoolAddr {
				return
			}
			seen[addr] = true
			want := new(big.Int)
			if a, ok := awards[addr]; ok {
				want.Add(want, a)
			}
			if c.H > 1 {
				if addr == recipient {
					want.Add(want, fees)
				}
				if addr == FeeAddr {
					want.Sub(want, fees)
				}
			}
			got := sub(post.Bal(addr), pre.Bal(addr))
			if got.Cmp(want) != 0 {
				kind := "balance"
				switch {
				case addr == recipient:
					kind = "proposer"
				case awards[addr] != nil:
					kind = "award-recipient"
				case addr == FeeAddr:
					kind = "collector"
				}
				e.Violate("C10", "begin-"+kind+"-delta", fmt.Sprintf("BeginBlock@%d: %s %s moved by %v, expected %v (fees %v to %s, award %v)",
					c.H, kind, addr, got, want, fees, recipient, awards[addr]), c)
			}
		}
		for a := range pre.Accounts {
			check(a)
		}
		for a := range post.Accounts {
			check(a)
		}
		for a := range awards {
			check(a)
		}
		checkAwardQueue(e, c, "C10")
		// the queue holds exactly what the ext module queued during this very call (it runs after pos)
		wantQ := map[string]*big.Int{}
		for _, x := range c.Entry.Ext {
			if x.Kind == "award" && x.Phase == "begin" {
				k := hexs(x.Addr)
				if wantQ[k] == nil {
					wantQ[k] = new(big.Int)
				}
				wantQ[k].Add(wantQ[k], bi(x.Amount))
			}
		}
		for a, q := range post.Awards {
			w, ok := wantQ[a]
			if !ok || w.Cmp(q) != 0 {
				e.Violate("C10", "award-queue-not-cleared", fmt.Sprintf("BeginBlock@%d: award queue entry %s=%v survives (queued in this call: %v)", c.H, a, q, w), c)
			}
		}
		// supply: exactly Σ awards newly minted (minus burns)
		ds := sub(post.Supply, pre.Supply)
		want := sub(sumAwards(pre), stakeDecrease(pre, post))
		if ds.Cmp(want) != 0 {
			e.Violate("C10", "award-mint-amount", fmt.Sprintf("BeginBlock@%d: supply moved by %v, queued awards %v, burned %v", c.H, ds, sumAwards(pre), stakeDecrease(pre, post)), c)
		}
	}
}
