package mon

import (
	stded "crypto/ed25519"
	"crypto/sha256"
	"encoding/json"
	"math/big"
	"strconv"

	"github.com/btcsuite/btcd/btcec"
	amino "github.com/tendermint/go-amino"
	"golang.org/x/crypto/ripemd160"

	"github.com/pokt-network/posmint/crypto"
	sdk "github.com/pokt-network/posmint/types"
)

// Independent re-implementations used as oracles (no call into posmint's verification paths).

var secpHalfN = new(big.Int).Rsh(btcec.S256().N, 1)

// IndepVerify verifies sig over msg under pk using primitives that do not go through posmint's wrappers:
// crypto/ed25519 from the standard library, btcec for secp256k1 (SHA-256, R||S, low-S), and the
// positional N-of-N rule for multisignature keys.
func IndepVerify(pk crypto.PublicKey, msg, sig []byte) bool {
	switch k := pk.(type) {
	case crypto.Ed25519PublicKey:
		if len(sig) != stded.SignatureSize {
			return false
		}
		return stded.Verify(stded.PublicKey(k[:]), msg, sig)
	case crypto.Secp256k1PublicKey:
		if len(sig) != 64 {
			return false
		}
		pub, err := btcec.ParsePubKey(k[:], btcec.S256())
		if err != nil {
			return false
		}
		s := &btcec.Signature{R: new(big.Int).SetBytes(sig[:32]), S: new(big.Int).SetBytes(sig[32:])}
		if s.S.Cmp(secpHalfN) > 0 {
			return false
		}
		h := sha256.Sum256(msg)
		return s.Verify(h[:], pub)
	case crypto.PublicKeyMultiSignature:
		var ms struct {
			Sigs [][]byte
		}
		// the wire form of a multisignature is the amino encoding of the registered MultiSignature struct
		var iface crypto.MultiSig
		if err := multisigCdc.UnmarshalBinaryBare(sig, &iface); err != nil {
			return false
		}
		ms.Sigs = iface.Signatures()
		if len(ms.Sigs) != len(k.PublicKeys) || len(k.PublicKeys) == 0 {
			return false
		}
		for i, sub := range k.PublicKeys {
			if ms.Sigs[i] == nil || !IndepVerify(sub, msg, ms.Sigs[i]) {
				return false
			}
		}
		return true
	}
	return false
}

var multisigCdc = func() *amino.Codec {
	c := amino.NewCodec()
	crypto.RegisterAmino(c)
	return c
}()

// IndepAddress derives the address of a key without posmint's Address methods (single keys).
func IndepAddress(pk crypto.PublicKey) []byte {
	switch k := pk.(type) {
	case crypto.Ed25519PublicKey:
		h := sha256.Sum256(k[:])
		return h[:20]
	case crypto.Secp256k1PublicKey:
		h := sha256.Sum256(k[:])
		r := ripemd160.New()
		r.Write(h[:])
		return r.Sum(nil)
	case crypto.PublicKeyMultiSignature:
		h := sha256.Sum256(k.Bytes())
		return h[:20]
	}
	return nil
}

// IndepSignBytes assembles the canonical sign document (chain id, fee, memo, msg, entropy) as key-sorted JSON
// with encoding/json; only the message's own sign bytes come from the message.
func IndepSignBytes(chainID string, entropy int64, fee sdk.Coins, msg sdk.Msg, memo string) []byte {
	type coin struct {
		Amount string `json:"amount"`
		Denom  string `json:"denom"`
	}
	fs := []coin{}
	for _, c := range fee {
		fs = append(fs, coin{Amount: c.Amount.String(), Denom: c.Denom})
	}
	var m interface{}
	if err := json.Unmarshal(msg.GetSignBytes(), &m); err != nil {
		return nil
	}
	doc := map[string]interface{}{
		"chain_id": chainID,
		"entropy":  strconv.FormatInt(entropy, 10),
		"fee":      fs,
		"memo":     memo,
		"msg":      m,
	}
	bz, err := json.Marshal(doc) // encoding/json sorts map keys
	if err != nil {
		return nil
	}
	return bz
}
