package mon

import (
	"crypto/sha256"
	"encoding/hex"
	"fmt"

	abci "github.com/tendermint/tendermint/abci/types"

	"verif/harness/sim"
)

// Digest records one line per consensus call with everything C01 calls consensus-relevant; two processes that
// executed the same request log must produce identical lists.
type Digest struct{ Lines []string }

func evDigest(evs []abci.Event) string {
	h := sha256.New()
	for _, e := range evs {
		h.Write([]byte(e.Type))
		for _, kv := range e.Attributes {
			h.Write([]byte{0})
			h.Write(kv.Key)
			h.Write([]byte{1})
			h.Write(kv.Value)
		}
		h.Write([]byte{2})
	}
	return hex.EncodeToString(h.Sum(nil))[:12]
}

func (d *Digest) OnCall(e *sim.Env, c *sim.Call) {
	switch c.Kind {
	case "init":
		d.Lines = append(d.Lines, fmt.Sprintf("init vals=%d panic=%v", len(c.ResInit.Validators), c.Panic != ""))
	case "begin":
		d.Lines = append(d.Lines, fmt.Sprintf("begin %d ev=%s panic=%v", c.H, evDigest(c.ResBegin.Events), c.Panic != ""))
	case "deliver":
		d.Lines = append(d.Lines, fmt.Sprintf("deliver %d code=%d/%s data=%x ev=%s", c.H, c.ResDeliver.Code, c.ResDeliver.Codespace, c.ResDeliver.Data, evDigest(c.ResDeliver.Events)))
	case "end":
		s := ""
		for _, u := range c.ResEnd.ValidatorUpdates {
			s += fmt.Sprintf("%x:%d,", u.PubKey.Data, u.Power)
		}
		d.Lines = append(d.Lines, fmt.Sprintf("end %d ups=%s ev=%s panic=%v", c.H, s, evDigest(c.ResEnd.Events), c.Panic != ""))
	case "commit":
		d.Lines = append(d.Lines, fmt.Sprintf("commit %d hash=%x", c.H, c.ResCommit.Data))
	}
}
