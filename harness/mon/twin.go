package mon

import (
	"bytes"
	"fmt"
	"os"
	"io"
	"io/ioutil"

	abci "github.com/tendermint/tendermint/abci/types"
	dbm "github.com/tendermint/tm-db"

	"verif/harness/sim"
)

// C01 — a second, independently started instance is driven with the same consensus requests.
// It differs in everything the statement says must not matter: it is stopped and reopened from its
// database after PRNG-chosen commits, runs with another pruning option, with the store tracer on,
// and receives extra CheckTx/Query/Info traffic between the consensus calls.
type C01 struct {
	T          *sim.Env
	R          *sim.Rand
	RestartPct int
	ReadsPct   int
	Pruning    *[2]int64
	Trace      bool
	W          *sim.World // source of read-only traffic payloads
	traceBuf   io.Writer
	oldTxs     [][]byte
	// C11 mode: the twin never sees the transactions that were rejected without a trace (nor any read-only
	// call); if those really leave nothing behind — in the stores *or in memory* — every later result and
	// every app hash must still agree.
	Prop          string
	SkipTraceless bool
}

func NewC01(seed uint64, idx *sim.TxIndex) *C01 {
	r := sim.NewRand(seed ^ 0xC01)
	m := &C01{R: r, RestartPct: 12, ReadsPct: 25}
	switch r.Intn(5) {
	case 0:
		m.Pruning = &[2]int64{0, 1}
	case 1:
		m.Pruning = nil // zero value == prune everything
	case 2:
		m.Pruning = &[2]int64{100, 10000}
	case 3:
		m.Pruning = &[2]int64{2, 3}
	case 4:
		m.Pruning = &[2]int64{5, 0}
	}
	m.Trace = r.Bool()
	m.T = sim.NewEnv(idx)
	m.T.NoSnap = true
	m.Prop = "C01"
	return m
}

// NewC11Twin: an instance that is spared every traceless rejection and every read-only call.
func NewC11Twin(seed uint64, idx *sim.TxIndex) *C01 {
	m := NewC01(seed, idx)
	m.Prop, m.SkipTraceless = "C11", true
	m.RestartPct, m.ReadsPct = 0, 0
	m.Pruning, m.Trace = &[2]int64{0, 1}, false
	return m
}

func evEq(a, b []abci.Event) bool {
	if len(a) != len(b) {
		return false
	}
	for i := range a {
		if a[i].Type != b[i].Type || len(a[i].Attributes) != len(b[i].Attributes) {
			return false
		}
		for j := range a[i].Attributes {
			if !bytes.Equal(a[i].Attributes[j].Key, b[i].Attributes[j].Key) || !bytes.Equal(a[i].Attributes[j].Value, b[i].Attributes[j].Value) {
				return false
			}
		}
	}
	return true
}

func upsEq(a, b []abci.ValidatorUpdate) bool {
	if len(a) != len(b) {
		return false
	}
	for i := range a {
		if a[i].Power != b[i].Power || a[i].PubKey.Type != b[i].PubKey.Type || !bytes.Equal(a[i].PubKey.Data, b[i].PubKey.Data) {
			return false
		}
	}
	return true
}

func (m *C01) extraReads() {
	t := m.T
	for i := 0; i < 3 && m.R.Chance(m.ReadsPct) && !t.Dead; i++ {
		if m.W != nil && m.R.Chance(60) {
			// the full read repertoire of the generator (single-record custom queries at old heights,
			// simulate of fresh transactions of every kind, ...), issued on the twin only
			m.W.RandomReadOn(t)
			continue
		}
		switch m.R.Intn(5) {
		case 0:
			t.Info()
		case 1:
			if len(m.oldTxs) > 0 {
				t.CheckTx(m.oldTxs[m.R.Intn(len(m.oldTxs))], "twin-check", nil)
			}
		case 2:
			t.Query(&sim.QuerySpec{Path: "/store/pos/subspace", Data: "21", Height: 0})
		case 3:
			t.Query(&sim.QuerySpec{Path: "/custom/pos/validators", Data: fmt.Sprintf("%x", `{"page":"1","limit":"100"}`), Height: 0})
		case 4:
			if len(m.oldTxs) > 0 {
				t.Query(&sim.QuerySpec{Path: "/app/simulate", Data: fmt.Sprintf("%x", m.oldTxs[m.R.Intn(len(m.oldTxs))])})
			}
		}
	}
}

func (m *C01) OnCall(e *sim.Env, c *sim.Call) {
	t := m.T
	if t.Dead && c.Kind != "init" {
		return
	}
	diverge := func(what, detail string) {
		if m.SkipTraceless {
			e.Violate("C11", "traceless-rejections-matter/"+c.Kind+"/"+what, fmt.Sprintf("%s@%d (%s): an instance that never saw the transactions rejected without a trace (nor the read-only calls) differs in %s: %s",
				c.Kind, c.H, c.Entry.Label, what, detail), c)
			return
		}
		e.Violate("C01", "divergence/"+c.Kind+"/"+what, fmt.Sprintf("%s@%d (%s): instances differ in %s: %s [twin: pruning %v, trace %v, restarts %d]",
			c.Kind, c.H, c.Entry.Label, what, detail, m.Pruning, m.Trace, t.Stats["restarts"]), c)
	}
	var tc *sim.Call
	switch c.Kind {
	case "init":
		spec := *c.Entry.Init
		spec.Pruning = m.Pruning
		if m.Trace {
			t.Opts.Tracer = ioutil.Discard
		}
		tc = t.InitChain(dbm.NewMemDB(), &spec)
		if len(tc.ResInit.Validators) != len(c.ResInit.Validators) || !upsEq(sortedUps(tc.ResInit.Validators), sortedUps(c.ResInit.Validators)) {
			diverge("InitChain.Validators", "")
		}
	case "begin":
		m.extraReads()
		tc = t.BeginBlock(c.Entry.Begin, c.Entry.Ext)
		if !evEq(tc.ResBegin.Events, c.ResBegin.Events) {
			diverge("BeginBlock.Events", fmt.Sprintf("%d vs %d events", len(c.ResBegin.Events), len(tc.ResBegin.Events)))
		}
	case "deliver":
		if only := os.Getenv("VCHECK_TWIN_SKIPSEQ"); only != "" && only != fmt.Sprint(c.Entry.Seq) {
			// debugging aid: skip exactly one call
		} else if m.SkipTraceless && (e.Init == nil || e.Init.MaxGas <= 0) && os.Getenv("VCHECK_TWIN_NOSKIP") == "" && c.Panic == "" && c.ResDeliver.Code != 0 && c.Pre.Raw != nil && len(sim.DiffRaw(c.Pre.Raw, c.Post.Raw)) == 0 {
			// (under a block gas limit a rejected transaction still uses up block gas, which later transactions of the
			// block legitimately feel: there the twin is spared only the read-only calls)
			e.Count("c11.twin.traceless_rejections_skipped")
			return
		}
		m.extraReads()
		tc = t.DeliverTx(c.Tx, c.Entry.Label, nil)
		a, b := c.ResDeliver, tc.ResDeliver
		if a.Code != b.Code || a.Codespace != b.Codespace || !bytes.Equal(a.Data, b.Data) {
			diverge("DeliverTx.Code/Data", fmt.Sprintf("code %d/%s vs %d/%s", a.Code, a.Codespace, b.Code, b.Codespace))
		} else if !evEq(a.Events, b.Events) {
			diverge("DeliverTx.Events", "")
		}
		if tc.Panic == "" {
			m.oldTxs = append(m.oldTxs, c.Tx)
			if len(m.oldTxs) > 32 {
				m.oldTxs = m.oldTxs[1:]
			}
		}
	case "end":
		m.extraReads()
		tc = t.EndBlock(c.Entry.Ext)
		if !upsEq(tc.ResEnd.ValidatorUpdates, c.ResEnd.ValidatorUpdates) {
			diverge("EndBlock.ValidatorUpdates", fmt.Sprintf("%v vs %v", c.ResEnd.ValidatorUpdates, tc.ResEnd.ValidatorUpdates))
		} else if !evEq(tc.ResEnd.Events, c.ResEnd.Events) {
			diverge("EndBlock.Events", "")
		}
	case "commit":
		tc = t.Commit()
		if m.SkipTraceless {
			// A rejected transaction may legitimately re-write identical bytes (a zero fee "moved" to the collector):
			// the content is untouched but IAVL node versions, hence the hash, change. The statement speaks about
			// the state, so the twin is compared by content here, not by hash.
			if c.Post.Raw != nil && tc.Panic == "" {
				if d := sim.DiffRaw(c.Post.Raw, t.A.DumpRaw()); len(d) > 0 {
					diverge("state-content", fmt.Sprintf("%d keys differ after commit, first %s", len(d), d[0].String()))
				}
			}
		} else if !bytes.Equal(tc.ResCommit.Data, c.ResCommit.Data) {
			diverge("app-hash", fmt.Sprintf("%X vs %X", c.ResCommit.Data, tc.ResCommit.Data))
		}
		if m.SkipTraceless {
			e.Count("c11.twin.heights_compared")
		} else {
			e.Count("c01.heights_compared")
		}
		if tc.Panic == "" && m.R.Chance(m.RestartPct) {
			if err := t.Restart(); err != nil {
				e.Violate("C01", "reopen-failed", fmt.Sprintf("twin could not be reopened after commit %d: %v [pruning %v]", c.H, err, m.Pruning), c)
				t.Dead = true
				return
			}
			e.Count("c01.twin_restarts")
			ri := t.A.Info(abci.RequestInfo{})
			if ri.LastBlockHeight != c.H || !bytes.Equal(ri.LastBlockAppHash, c.ResCommit.Data) {
				diverge("Info-after-reopen", fmt.Sprintf("height %d hash %X, committed %d %X", ri.LastBlockHeight, ri.LastBlockAppHash, c.H, c.ResCommit.Data))
			}
		}
		m.extraReads()
	default:
		return // read-only traffic on the primary is not replicated (the twin has its own)
	}
	if os.Getenv("VCHECK_TRACE") != "" && tc != nil && c.Post.Raw != nil && !t.Dead {
		if d := sim.DiffRaw(c.Post.Raw, t.A.DumpRaw()); len(d) > 0 {
			fmt.Printf("   TWIN-STATE-DIFF after %s@%d (%s): %d keys, first %s\n", c.Kind, c.H, c.Entry.Label, len(d), d[0].String())
		}
	}
	if tc != nil && (tc.Panic != "") != (c.Panic != "") {
		diverge("panic", fmt.Sprintf("primary %q twin %q", firstLine(c.Panic), firstLine(tc.Panic)))
	}
}

func sortedUps(u []abci.ValidatorUpdate) []abci.ValidatorUpdate {
	out := append([]abci.ValidatorUpdate{}, u...)
	for i := 1; i < len(out); i++ {
		for j := i; j > 0 && bytes.Compare(out[j].PubKey.Data, out[j-1].PubKey.Data) < 0; j-- {
			out[j], out[j-1] = out[j-1], out[j]
		}
	}
	return out
}
