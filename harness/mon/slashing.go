package mon

import (
	"fmt"
	"math/big"
	"sort"
	"time"

	abci "github.com/tendermint/tendermint/abci/types"

	"verif/harness/sim"

	sdk "github.com/pokt-network/posmint/types"
)

// expectedBeginDeltas: Δ balance every account other than the staked pool must show across BeginBlock(h):
// awards queued in the pre-state, plus the fees of block h-1 moving from the collector to the recorded proposer
// (or to the pos module account when that proposer is not a known validator).
func expectedBeginDeltas(pre *sim.View, h int64) map[string]*big.Int {
	out := map[string]*big.Int{}
	addTo := func(a string, n *big.Int) {
		if out[a] == nil {
			out[a] = new(big.Int)
		}
		out[a].Add(out[a], n)
	}
	for a, n := range pre.Awards {
		addTo(a, n)
	}
	if h > 1 {
		fees := pre.Bal(FeeAddr)
		rec := PosAddr
		if _, ok := pre.Vals[pre.Proposer]; ok {
			rec = pre.Proposer
		}
		addTo(rec, fees)
		addTo(FeeAddr, new(big.Int).Neg(fees))
	}
	return out
}

type slashEvent struct {
	Addr   string
	Power  int64
	Reason string
}

func slashEvents(evs []abci.Event) []slashEvent {
	var out []slashEvent
	for _, ev := range evs {
		if ev.Type != "slash" {
			continue
		}
		m := map[string]string{}
		for _, kv := range ev.Attributes {
			m[string(kv.Key)] = string(kv.Value)
		}
		if m["reason"] == "" {
			continue
		}
		var p int64
		fmt.Sscanf(m["power"], "%d", &p)
		out = append(out, slashEvent{Addr: lower(m["address"]), Power: p, Reason: m["reason"]})
	}
	return out
}

func lower(s string) string {
	b := []byte(s)
	for i, c := range b {
		if c >= 'A' && c <= 'F' {
			b[i] = c + 32
		}
	}
	return string(b)
}

// truncMul = trunc(power * 10^6 * f) with f an 18-decimal fixed point number (exact integer arithmetic).
func truncMul(power int64, f sdk.Dec) *big.Int {
	n := new(big.Int).Mul(big.NewInt(power), million)
	n.Mul(n, f.Int)
	prec := new(big.Int).Exp(big.NewInt(10), big.NewInt(18), nil)
	return n.Quo(n, prec) // f >= 0, so Quo truncates toward zero
}

type mval struct {
	status int
	jailed bool
	tokens *big.Int
	tomb   bool
}

// C07 — slashing burns exactly the stated amount.
type C07 struct{}

func evClass(model map[string]*mval, pre *sim.View, cp sim.CurParams, ev sim.EvidSpec, now time.Time) string {
	if !pre.PubRel[ev.Addr] {
		return "unknown"
	}
	if now.Sub(ev.At()) > cp.MaxEvAge {
		return "old"
	}
	v, ok := model[ev.Addr]
	if !ok {
		return "removed"
	}
	if v.status == 0 {
		return "unstaked"
	}
	if v.tomb {
		return "tombstoned"
	}
	return "valid"
}

func (C07) OnCall(e *sim.Env, c *sim.Call) {
	if c.Kind != "begin" || c.Pre.View == nil {
		return
	}
	pre := c.Pre.View
	cp := sim.ParamsOf(pre)
	model := map[string]*mval{}
	for a, v := range pre.Vals {
		model[a] = &mval{status: v.Status, jailed: v.Jailed, tokens: new(big.Int).Set(v.Tokens)}
		if s, ok := pre.Sign[a]; ok && s.Tombstoned {
			model[a].tomb = true
		}
	}
	if c.Panic != "" {
		// process death: nothing of this block commits. The statement promises a burn for valid evidence.
		cls := panicBeginClass(c.Panic)
		valid := false
		// queued burns run before the evidence: apply their status consequences to the model first
		for a, sev := range pre.Burns {
			if v, ok := model[a]; ok && v.status != 0 {
				p := int64(0)
				if v.status == 2 {
					p = powerOf(v.tokens)
				}
				amt := truncMul(p, sev)
				if amt.Cmp(v.tokens) > 0 {
					amt = new(big.Int).Set(v.tokens)
				}
				v.tokens.Sub(v.tokens, amt)
				if v.tokens.Cmp(bi(cp.Min)) < 0 {
					v.tokens, v.status = new(big.Int), 0
				}
			}
		}
		// votes run before the evidence too: replay the documented downtime rule on the pre-state signing info
		// (a validator can be slashed for downtime, and force-unstaked, in the very block that carries its evidence)
		if W := cp.Window; W > 0 {
			maxMissed := W - minSigned(cp.MinSigned, W)
			for _, vt := range c.Entry.Begin.Votes {
				si, v := pre.Sign[vt.Addr], model[vt.Addr]
				if si == nil {
					continue
				}
				cnt := si.Missed
				prev := pre.MissedBits[vt.Addr][si.Offset%W]
				if !prev && !vt.Signed {
					cnt++
				} else if prev && vt.Signed {
					cnt--
				}
				if c.H > si.Start+W && cnt > maxMissed && v != nil && !v.jailed {
					if v.status != 0 {
						amt := truncMul(vt.Power, cp.FracDT)
						if amt.Cmp(v.tokens) > 0 {
							amt = new(big.Int).Set(v.tokens)
						}
						v.tokens.Sub(v.tokens, amt)
						if v.tokens.Cmp(bi(cp.Min)) < 0 {
							v.tokens, v.status = new(big.Int), 0
						}
					}
					v.jailed = true
				}
			}
		}
		ignorable := false
		for _, ev := range c.Entry.Begin.Evidence {
			k := evClass(model, pre, cp, ev, c.Time)
			e.Count("c07.fatal_evidence." + k)
			if k == "valid" {
				valid = true
				// (a confirmed double sign burns everything: later evidence in the block sees it unstaked)
				model[ev.Addr].status, model[ev.Addr].tokens, model[ev.Addr].tomb = 0, new(big.Int), true
			} else {
				ignorable = true
			}
		}
		switch {
		case valid && ignorable:
			// the node dies on the ignorable piece of evidence (pinned by TestHandleDoubleSign for tombstoned /
			// unknown keys, same code path for unstaked / removed / old); the valid burn in the same block is
			// lost with it. Counted, not judged: the death is explained by the pinned behaviour.
			e.Count("c07.node_death_on_ignorable_evidence")
			e.Count("c07.valid_burn_lost_to_ignorable_evidence_in_same_block")
		case valid:
			detail := ""
			for _, ev := range c.Entry.Begin.Evidence {
				if v, ok := pre.Vals[ev.Addr]; ok {
					detail += fmt.Sprintf(" [offender %.8s status %s jailed %v stake %v, evidence power %d age %v, max age %v, fraction %v, min %d]", ev.Addr, statusName[v.Status], v.Jailed, v.Tokens, ev.Power, c.Time.Sub(ev.At()), cp.MaxEvAge, cp.FracDS, cp.Min)
				}
			}
			e.Violate("C07", "valid-double-sign-kills-node/"+cls, fmt.Sprintf("BeginBlock@%d with valid in-window double-sign evidence panicked (%s): the promised burn never commits%s", c.H, firstLine(c.Panic), detail), c)
		case len(c.Entry.Begin.Evidence) == 0:
			e.Violate("C07", "begin-panic/"+cls, fmt.Sprintf("BeginBlock@%d panicked without any evidence in the block: %s", c.H, firstLine(c.Panic)), c)
		default:
			e.Count("c07.node_death_on_ignorable_evidence")
		}
		if c.Reopened {
			// nothing may have been burned
			// (Post is the reopened, committed state; compared with the committed pre-state by C13/C01 machinery)
		}
		return
	}
	post := c.Post.View
	burned := new(big.Int)
	apply := func(v *mval, power int64, f sdk.Dec) {
		amt := truncMul(power, f)
		if amt.Cmp(v.tokens) > 0 {
			amt = new(big.Int).Set(v.tokens)
		}
		v.tokens.Sub(v.tokens, amt)
		burned.Add(burned, amt)
		if amt.Sign() > 0 {
			e.Count("c07.slashes_burning")
		}
		if v.tokens.Cmp(bi(cp.Min)) < 0 {
			burned.Add(burned, v.tokens)
			v.tokens = new(big.Int)
			v.status = 0
			e.Count("c07.crossed_minimum")
		} else if amt.Sign() > 0 && v.tokens.Cmp(bi(cp.Min)) == 0 {
			e.Count("c07.slash_leaves_exactly_the_minimum")
		}
	}
	// A: queued burns in key order
	var baddrs []string
	for a := range pre.Burns {
		baddrs = append(baddrs, a)
	}
	sort.Strings(baddrs)
	for _, a := range baddrs {
		v, ok := model[a]
		if !ok || v.status == 0 {
			e.Count("c07.queued_burn_ignored")
			continue
		}
		p := int64(0)
		if v.status == 2 {
			p = powerOf(v.tokens)
		}
		e.Count("c07.queued_burns")
		if v.status == 1 {
			e.Count("c07.slash_of_unstaking")
		}
		apply(v, p, pre.Burns[a])
	}
	// B/C: slash events tell which votes crossed the downtime threshold (C08 judges *whether* they should)
	evs := slashEvents(c.ResBegin.Events)
	dsSeen := map[string]bool{}
	for _, se := range evs {
		switch se.Reason {
		case "missing_signature":
			v, ok := model[se.Addr]
			if !ok {
				e.Violate("C07", "slash-event-unknown-validator", fmt.Sprintf("BeginBlock@%d reports a downtime slash of unknown validator %s", c.H, se.Addr), c)
				continue
			}
			e.Count("c07.downtime_slashes")
			if v.status == 1 {
				e.Count("c07.slash_of_unstaking")
			}
			if v.status != 0 {
				apply(v, se.Power, cp.FracDT)
			}
			v.jailed = true
		case "double_sign":
			dsSeen[se.Addr] = true
		}
	}
	for _, ev := range c.Entry.Begin.Evidence {
		k := evClass(model, pre, cp, ev, c.Time)
		e.Count("c07.evidence." + k)
		if c.Time.Sub(ev.At()) == cp.MaxEvAge {
			e.Count("c07.evidence_exactly_at_max_age")
		}
		if k != "valid" {
			if dsSeen[ev.Addr] && k != "tombstoned" {
				// the event is emitted before the slash; what matters is that nothing is burned (checked below)
			}
			continue
		}
		v := model[ev.Addr]
		burned.Add(burned, v.tokens)
		if v.tokens.Sign() > 0 {
			e.Count("c07.double_sign_burns")
		}
		v.tokens = new(big.Int)
		v.status, v.jailed, v.tomb = 0, true, true
	}
	// compare
	for a, mv := range model {
		pv, ok := post.Vals[a]
		if !ok {
			e.Violate("C07", "validator-vanished", fmt.Sprintf("validator %s disappeared in BeginBlock@%d", a, c.H), c)
			continue
		}
		if pv.Tokens.Cmp(mv.tokens) != 0 {
			e.Violate("C07", "stake-after-slash", fmt.Sprintf("BeginBlock@%d: validator %s has stake %v, the statement gives %v (before: %v; queued burn %v; events %v; evidence %v)",
				c.H, a, pv.Tokens, mv.tokens, pre.Vals[a].Tokens, pre.Burns[a], evs, c.Entry.Begin.Evidence), c)
		}
		if pv.Status != mv.status {
			e.Violate("C07", "status-after-slash", fmt.Sprintf("BeginBlock@%d: validator %s is %s, the statement gives %s (stake %v, minimum %d)", c.H, a, statusName[pv.Status], statusName[mv.status], pv.Tokens, cp.Min), c)
		}
		if mv.tomb && !pre.Sign[a].Tombstoned {
			if s := post.Sign[a]; s == nil || !s.Tombstoned || !pv.Jailed {
				e.Violate("C07", "double-sign-not-tombstoned", fmt.Sprintf("BeginBlock@%d: double-sign convict %s tombstoned=%v jailed=%v", c.H, a, s != nil && s.Tombstoned, pv.Jailed), c)
			}
		}
	}
	wantPool := new(big.Int).Neg(burned)
	if a, ok := pre.Awards[PoolAddr]; ok {
		wantPool.Add(wantPool, a)
	}
	if d := sub(post.Bal(PoolAddr), pre.Bal(PoolAddr)); d.Cmp(wantPool) != 0 {
		e.Violate("C07", "pool-after-slash", fmt.Sprintf("BeginBlock@%d: staked pool moved by %v, slashes burn %v (award to pool %v)", c.H, d, burned, pre.Awards[PoolAddr]), c)
	}
	if d := sub(post.Supply, pre.Supply); d.Cmp(sub(sumAwards(pre), burned)) != 0 {
		e.Violate("C07", "supply-after-slash", fmt.Sprintf("BeginBlock@%d: supply moved by %v, slashes burn %v, awards mint %v", c.H, d, burned, sumAwards(pre)), c)
	}
	if burned.Sign() > 0 {
		e.Count("c07.blocks_with_burn")
		exp := expectedBeginDeltas(pre, c.H)
		all := map[string]bool{}
		for a := range pre.Accounts {
			all[a] = true
		}
		for a := range post.Accounts {
			all[a] = true
		}
		for a := range all {
			if a == PoolAddr {
				continue
			}
			w := exp[a]
			if w == nil {
				w = new(big.Int)
			}
			if d := sub(post.Bal(a), pre.Bal(a)); d.Cmp(w) != 0 {
				e.Violate("C07", "bystander-balance", fmt.Sprintf("BeginBlock@%d with slashes: account %s moved by %v, expected %v", c.H, a, d, w), c)
			}
		}
	}
	// the burn queue holds only what ext queued during this call
	for a := range post.Burns {
		ok := false
		for _, x := range c.Entry.Ext {
			if x.Kind == "burn" && x.Phase == "begin" && hexs(x.Addr) == a {
				ok = true
			}
		}
		if !ok {
			e.Violate("C07", "burn-queue-not-cleared", fmt.Sprintf("BeginBlock@%d: burn queue entry for %s survives", c.H, a), c)
		}
	}
}

func panicBeginClass(p string) string {
	switch {
	case contains(p, "is not positive"):
		return "zero-burn"
	case contains(p, "nil pointer"):
		return "nil-deref"
	case contains(p, "validator record not found"):
		return "validator-record-not-found"
	case contains(p, "tombstoned"):
		return "tombstoned"
	case contains(p, "cannot jail already jailed"):
		return "already-jailed"
	}
	return "other"
}

// ---------------------------------------------------------------------------------------------
// C08 — downtime window.

type c08val struct {
	hist  []bool // missed flags of the blocks it was expected to sign since the last reset
	start int64
	seen  bool
}

type C08 struct {
	vals map[string]*c08val
	// lastW / unspecified: once governance has changed the window size in the middle of a history the statement no
	// longer says what the window of a validator contains (DESIGN §7); from then on only the clause that does not
	// depend on the window's content is judged: a downtime jailing leaves no missed entry and a zero counter behind
	lastW       int64
	unspecified bool
}

func NewC08() *C08 { return &C08{vals: map[string]*c08val{}} }

// roundHalfEven(frac * w) for an 18-decimal fixed point frac.
func minSigned(frac sdk.Dec, w int64) int64 {
	prec := new(big.Int).Exp(big.NewInt(10), big.NewInt(18), nil)
	n := new(big.Int).Mul(frac.Int, big.NewInt(w))
	q, r := new(big.Int).QuoRem(n, prec, new(big.Int))
	twice := new(big.Int).Mul(r, big.NewInt(2))
	switch twice.Cmp(prec) {
	case 1:
		q.Add(q, big.NewInt(1))
	case 0:
		if q.Bit(0) == 1 {
			q.Add(q, big.NewInt(1))
		}
	}
	return q.Int64()
}

func (m *C08) OnCall(e *sim.Env, c *sim.Call) {
	if c.Kind != "begin" || c.Panic != "" || c.Pre.View == nil {
		return
	}
	pre, post := c.Pre.View, c.Post.View
	cp := sim.ParamsOf(pre)
	W := cp.Window
	if W <= 0 {
		return
	}
	maxMissed := W - minSigned(cp.MinSigned, W)
	slashed := map[string]bool{}
	for _, se := range slashEvents(c.ResBegin.Events) {
		if se.Reason == "missing_signature" {
			slashed[se.Addr] = true
		}
	}
	if m.lastW != 0 && m.lastW != W && !m.unspecified {
		m.unspecified = true
		e.Count("c08.histories_with_window_changes")
	}
	m.lastW = W
	for a := range slashed {
		// jailing clears the window, whatever size it has or had
		qv, ok := post.Vals[a]
		ps := post.Sign[a]
		if !ok || !qv.Jailed || ps == nil {
			continue
		}
		e.Count("c08.jailings_window_cleared_checked")
		left := 0
		for _, b := range post.MissedBits[a] {
			if b {
				left++
			}
		}
		if left != 0 || ps.Missed != 0 {
			e.Violate("C08", "window-not-cleared-at-jailing", fmt.Sprintf("BeginBlock@%d validator %s was jailed for downtime; %d missed entries and a counter of %d remain (window %d, changed earlier in this history: %v)", c.H, a, left, ps.Missed, W, m.unspecified), c)
		}
	}
	if m.unspecified {
		return
	}
	for _, vt := range c.Entry.Begin.Votes {
		a := vt.Addr
		mv := m.vals[a]
		if mv == nil {
			mv = &c08val{}
			m.vals[a] = mv
		}
		si := pre.Sign[a]
		if si == nil {
			continue // the code panics for these; not generated
		}
		if !mv.seen {
			mv.seen, mv.start = true, si.Start
			if si.Offset != 0 || si.Missed != 0 {
				// joined mid-way (should not happen: votes start with the validator's first set membership)
				mv.hist = make([]bool, si.Offset)
			}
		} else if si.Start != mv.start {
			mv.start = si.Start
		}
		mv.hist = append(mv.hist, !vt.Signed)
		e.Count("c08.votes")
		if !vt.Signed {
			e.Count("c08.missed_votes")
		}
		// count over the window of the last W expected blocks
		n := int64(len(mv.hist))
		lo := n - W
		if lo < 0 {
			lo = 0
		}
		cnt := int64(0)
		for i := lo; i < n; i++ {
			if mv.hist[i] {
				cnt++
			}
		}
		pv, exists := pre.Vals[a]
		punish := c.H > mv.start+W && cnt > maxMissed && exists && !pv.Jailed
		if cnt == maxMissed && c.H > mv.start+W {
			e.Count("c08.at_threshold")
		}
		ps := post.Sign[a]
		if ps == nil {
			e.Violate("C08", "signing-info-vanished", fmt.Sprintf("signing info of %s vanished in BeginBlock@%d", a, c.H), c)
			continue
		}
		if punish != slashed[a] {
			sig := "downtime-missed-punishment"
			if slashed[a] {
				sig = "downtime-unexpected-punishment"
				if exists && pv.Jailed {
					sig += "/already-jailed"
				} else if c.H <= mv.start+W {
					sig += "/before-min-height"
				} else if cnt <= maxMissed {
					sig += "/below-threshold"
				}
			}
			e.Violate("C08", sig, fmt.Sprintf("BeginBlock@%d validator %s: window %d, missed in window %d, max allowed %d, start %d, jailed %v, exists %v: statement says punish=%v, code punished=%v",
				c.H, a, W, cnt, maxMissed, mv.start, exists && pv.Jailed, exists, punish, slashed[a]), c)
		}
		if punish {
			e.Count("c08.downtime_punishments")
			mv.hist = nil
			cnt = 0
			if qv, ok := post.Vals[a]; !ok || !qv.Jailed {
				e.Violate("C08", "downtime-not-jailed", fmt.Sprintf("BeginBlock@%d validator %s crossed the downtime threshold but is not jailed", c.H, a), c)
			}
		}
		if ps.Missed != cnt {
			e.Violate("C08", "counter-ne-window", fmt.Sprintf("BeginBlock@%d validator %s: missed-blocks counter %d, the window of the last %d expected blocks holds %d misses (history length %d)", c.H, a, ps.Missed, W, cnt, len(mv.hist)), c)
		}
		// stored bits must equal the window content
		n = int64(len(mv.hist))
		lo = n - W
		if lo < 0 {
			lo = 0
		}
		wantBits := map[int64]bool{}
		for i := lo; i < n; i++ {
			if mv.hist[i] {
				wantBits[i%W] = true
			}
		}
		gotBits := map[int64]bool{}
		for idx, b := range post.MissedBits[a] {
			if b {
				gotBits[idx] = true
			}
		}
		if len(wantBits) != len(gotBits) {
			e.Violate("C08", "bits-ne-window", fmt.Sprintf("BeginBlock@%d validator %s: stored missed bits %v, window says %v", c.H, a, keysOf(gotBits), keysOf(wantBits)), c)
		} else {
			for k := range wantBits {
				if !gotBits[k] {
					e.Violate("C08", "bits-ne-window", fmt.Sprintf("BeginBlock@%d validator %s: stored missed bits %v, window says %v", c.H, a, keysOf(gotBits), keysOf(wantBits)), c)
					break
				}
			}
		}
		if ps.Offset != n {
			e.Violate("C08", "offset", fmt.Sprintf("BeginBlock@%d validator %s: index offset %d, expected-to-sign blocks since reset %d", c.H, a, ps.Offset, n), c)
		}
	}
	// a downtime slash for somebody who did not vote-miss in this block is impossible
	for a := range slashed {
		found := false
		for _, vt := range c.Entry.Begin.Votes {
			if vt.Addr == a {
				found = true
			}
		}
		if !found {
			e.Violate("C08", "downtime-unexpected-punishment/not-in-commit", fmt.Sprintf("BeginBlock@%d: downtime slash of %s which was not in the last commit", c.H, a), c)
		}
	}
}

func keysOf(m map[int64]bool) []int64 {
	var out []int64
	for k := range m {
		out = append(out, k)
	}
	sort.Slice(out, func(i, j int) bool { return out[i] < out[j] })
	return out
}
