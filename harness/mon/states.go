package mon

import (
	"fmt"
	"sort"

	"verif/harness/sim"
)

// StateStats counts the distinct abstract staking states a history walked through (observability of the workload,
// not a judge): the multiset of (status, jailed, power bucket) of all validators plus index / queue sizes.
type StateStats struct{ Seen map[string]bool }

func NewStateStats() *StateStats { return &StateStats{Seen: map[string]bool{}} }

func bucket(p int64) string {
	switch {
	case p == 0:
		return "0"
	case p == 1:
		return "1"
	case p < 10:
		return "<10"
	case p < 100:
		return "<100"
	}
	return ">=100"
}

func (m *StateStats) OnCall(e *sim.Env, c *sim.Call) {
	if c.Kind != "commit" || c.Post.View == nil {
		return
	}
	v := c.Post.View
	var parts []string
	for _, x := range v.Vals {
		parts = append(parts, fmt.Sprintf("%d%v%s", x.Status, x.Jailed, bucket(powerOf(x.Tokens))))
	}
	sort.Strings(parts)
	k := fmt.Sprintf("%v|idx%d|q%d|aw%d|bu%d", parts, len(v.Index), len(v.Queue), len(v.Awards), len(v.Burns))
	if !m.Seen[k] {
		m.Seen[k] = true
		e.Count("distinct_abstract_staking_states_per_history")
	}
}
