package mon

import (
	"fmt"
	"strings"

	"verif/harness/sim"
	"verif/harness/storechk"

	posTypes "github.com/pokt-network/posmint/x/pos/types"
)

// C14 — store queries return committed data, with proofs that verify against that height's app hash.
type C14 struct {
	committed map[int64]sim.Raw
	hashes    map[int64][]byte
	views     map[int64]*sim.View // decoded committed state of the latest height (for module queries)
}

func NewC14() *C14 { return &C14{committed: map[int64]sim.Raw{}, hashes: map[int64][]byte{}} }

type envReporter struct {
	e *sim.Env
	c *sim.Call
}

func (r envReporter) Violate(prop, sig, msg string) { r.e.Violate(prop, sig, msg, r.c) }
func (r envReporter) Count(k string, n int64)       { r.e.Stats[k] += n }

func (m *C14) OnCall(e *sim.Env, c *sim.Call) {
	switch c.Kind {
	case "commit":
		if c.Panic == "" && c.Post.Raw != nil {
			m.committed[c.H] = c.Post.Raw
			m.hashes[c.H] = c.ResCommit.Data
		}
	case "query":
		p := c.QReq.Path
		if p == "/custom/pos/account_balance" && c.Panic == "" && c.ResQuery.Code == 0 && (c.QReq.Height == 0 || c.QReq.Height == e.H) && e.H >= 1 {
			// a module query without a height (or at the latest one) answers from the last committed state, also while a
			// block is being executed
			var qp posTypes.QueryAccountBalanceParams
			if raw, ok := m.committed[e.H]; ok && posTypes.ModuleCdc.UnmarshalJSON(c.QReq.Data, &qp) == nil {
				if m.views == nil {
					m.views = map[int64]*sim.View{}
				}
				v := m.views[e.H]
				if v == nil {
					v = e.A.Decode(raw)
					m.views = map[int64]*sim.View{e.H: v} // keep only the latest
				}
				want := v.Bal(fmt.Sprintf("%x", []byte(qp.Address)))
				got := strings.Trim(strings.TrimSpace(string(c.ResQuery.Value)), "\"")
				e.Count("c14.custom_balance_queries_judged")
				if e.InBlock {
					e.Count("c14.custom_balance_queries_inside_block")
				}
				if got != want.String() {
					e.Violate("C14", "custom-query-not-committed-state", fmt.Sprintf("%s for %x at latest height %d (in block: %v) returned %s, the committed balance is %v", p, []byte(qp.Address), e.H, e.InBlock, got, want), c)
				}
			}
			return
		}
		if p == "/custom/pos/account_balance" && c.QReq.Height == 0 && e.H == 0 {
			e.Count("c14.custom_balance_queries_before_first_commit_incl_refused")
		}
		if p == "/custom/pos/account_balance" && c.Panic == "" && c.ResQuery.Code == 0 && c.QReq.Height == 0 && e.H == 0 {
			// nothing is committed yet (between InitChain and the first Commit): the genesis balances exist only as
			// uncommitted writes, a query must not report them
			e.Count("c14.custom_balance_queries_before_first_commit")
			got := strings.Trim(strings.TrimSpace(string(c.ResQuery.Value)), "\"")
			if got != "0" && got != "" {
				e.Violate("C14", "custom-query-not-committed-state/before-first-commit", fmt.Sprintf("%s before the first Commit returned %s (uncommitted genesis state)", p, got), c)
			}
			return
		}
		if strings.HasPrefix(p, "/custom/") && c.Panic == "" && c.QReq.Height != 0 {
			// a module query for an explicit height that is pruned or does not exist yet is refused: it is not answered
			// from another height
			h := c.QReq.Height
			switch {
			case h < 0 || h > e.H:
				e.Count("c14.custom_queries_at_future_heights")
				if c.ResQuery.Code == 0 {
					e.Violate("C14", "custom-query-answers-for-future-height", fmt.Sprintf("%s at height %d (latest %d) returned code 0 with %d bytes", p, h, e.H, len(c.ResQuery.Value)), c)
				}
			case !storechk.Retained(h, e.H, e.Init.Pruning):
				e.Count("c14.custom_queries_at_pruned_heights")
				if c.ResQuery.Code == 0 {
					e.Violate("C14", "custom-query-answers-for-pruned-height", fmt.Sprintf("%s at height %d (latest %d, pruning %v) returned code 0 with %d bytes", p, h, e.H, e.Init.Pruning, len(c.ResQuery.Value)), c)
				}
			}
			return
		}
		if !strings.HasPrefix(p, "/store/") || !strings.HasSuffix(p, "/key") {
			return
		}
		store := strings.TrimSuffix(strings.TrimPrefix(p, "/store/"), "/key")
		rep := envReporter{e, c}
		if c.Panic != "" {
			cls := "other"
			if len(c.QReq.Data) > 0 && strings.Trim(string(c.QReq.Data), "\xff") == "" {
				cls = "key-all-0xff"
			}
			e.Violate("C14", "query-panic/"+cls, fmt.Sprintf("store query %s data %x panicked: %s", p, c.QReq.Data, firstLine(c.Panic)), c)
			return
		}
		latest := e.H
		known := false
		for _, n := range []string{"main", "auth", "pos", "params"} {
			if n == store {
				known = true
			}
		}
		if !known {
			e.Count("c14.queries.unknown_store")
			if c.ResQuery.Code == 0 && len(c.ResQuery.Value) != 0 {
				e.Violate("C14", "unknown-store-answers", fmt.Sprintf("query of %s returned a value", p), c)
			}
			return
		}
		if len(c.QReq.Data) == 0 {
			return
		}
		eff := c.QReq.Height
		if eff == 0 {
			eff = latest // baseapp injects the last committed height
		}
		if eff == 0 {
			// nothing is committed yet (between InitChain and the first Commit): there is no committed value to return
			e.Count("c14.store_queries_before_first_commit")
			if c.ResQuery.Code == 0 && len(c.ResQuery.Value) != 0 {
				e.Violate("C14", "value-before-first-commit", fmt.Sprintf("store query %s/%x before the first Commit returned %d bytes (uncommitted genesis / block-1 writes)", store, c.QReq.Data, len(c.ResQuery.Value)), c)
			}
			return
		}
		class := "retained"
		switch {
		case eff > latest:
			class = "future"
		case !storechk.Retained(eff, latest, e.Init.Pruning):
			class = "pruned"
		}
		var want []byte
		present := false
		if class == "retained" {
			if raw, ok := m.committed[eff]; ok {
				if v, ok := raw[store][string(c.QReq.Data)]; ok {
					want, present = v, true
				}
			} else {
				return // the harness did not observe that commit (replayed log started later)
			}
		}
		var others []int64
		for g := eff - 2; g <= eff+2; g++ {
			if g >= 1 && g <= latest {
				others = append(others, g)
			}
		}
		if e.InBlock {
			e.Count("c14.queries_inside_block")
		}
		// has the key an uncommitted change pending?
		if cur, ok := c.Pre.Raw[store][string(c.QReq.Data)]; class == "retained" && eff == latest && (ok != present || string(cur) != string(want)) {
			e.Count("c14.queries_on_key_with_pending_write")
		}
		ctx := fmt.Sprintf("app query @latest %d (in block: %v) pruning %v", latest, e.InBlock, e.Init.Pruning)
		var sk []string
		if class == "retained" {
			for k := range m.committed[eff][store] {
				sk = append(sk, k)
			}
		}
		storechk.JudgeStoreQuery(rep, "C14", store, c.QReq.Data, eff, c.QReq.Prove, class, want, present, c.ResQuery,
			func(g int64) []byte { return m.hashes[g] }, others, ctx, sk)
	}
}
