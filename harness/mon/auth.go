package mon

import (
	"bytes"
	"encoding/json"
	"fmt"
	"math/big"
	"time"

	"verif/harness/sim"

	"github.com/pokt-network/posmint/crypto"
	sdk "github.com/pokt-network/posmint/types"
	authTypes "github.com/pokt-network/posmint/x/auth/types"
	govTypes "github.com/pokt-network/posmint/x/gov/types"
	posTypes "github.com/pokt-network/posmint/x/pos/types"
)

// ---------------------------------------------------------------------------------------------
// C03 — accepted => authenticated by the signer's key over the canonical bytes, fee paid, not a replay.

type C03 struct {
	// executed: signed content (signer, entropy, message, fee, memo) of transactions accepted by DeliverTx -> block height
	executed map[string]int64
}

func NewC03() *C03 { return &C03{executed: map[string]int64{}} }

func (m *C03) OnCall(e *sim.Env, c *sim.Call) {
	if c.Kind != "check" && c.Kind != "deliver" {
		return
	}
	if c.Panic != "" || c.Meta == nil || !c.Meta.Decoded || c.Pre.View == nil {
		return
	}
	mode := c.Kind
	if !accepted(c) {
		e.Count("c03.rejected." + mode)
		return
	}
	e.Count("c03.accepted." + mode)
	pre := c.Pre.View
	tx := c.Meta.Tx
	signer := c.Meta.Signer
	viol := func(sig, msg string) {
		e.Violate("C03", sig, fmt.Sprintf("%s@%d accepted tx %q (%s by %s): %s", mode, c.H, c.Entry.Label, c.Meta.MsgType, signer, msg), c)
	}
	// which key does the statement say must have signed? the one supplied, else the signer's stored key
	var pk crypto.PublicKey
	src := "supplied"
	if tx.Signature.PublicKey != nil && len(tx.Signature.PublicKey.RawBytes()) != 0 {
		pk = tx.Signature.PublicKey
	} else if acc, ok := pre.Accounts[signer]; ok && acc.Pub != nil {
		pk, src = acc.Pub, "stored"
	}
	kind := "none"
	switch pk.(type) {
	case crypto.Ed25519PublicKey:
		kind = "ed25519"
	case crypto.Secp256k1PublicKey:
		kind = "secp256k1"
	case crypto.PublicKeyMultiSignature:
		kind = "multisig"
	}
	e.Count("c03.accepted.key." + kind + "." + src)
	if pk == nil {
		viol("no-key", "no public key supplied and none stored for the signer")
		return
	}
	if a := IndepAddress(pk); fmt.Sprintf("%x", a) != signer {
		viol("key-not-signers/"+kind, fmt.Sprintf("verifying key has address %x, the message declares signer %s", a, signer))
	}
	sb := IndepSignBytes(sim.ChainID, tx.Entropy, tx.Fee, tx.Msg, tx.Memo)
	if !IndepVerify(pk, sb, tx.Signature.Signature) {
		viol("bad-signature/"+kind, "signature does not verify over the canonical sign bytes of the submitted (chain id, msg, fee, memo, entropy)")
	}
	// ground truth kept by the harness: what the signer actually signed. An accepted transaction whose message,
	// fee, memo or entropy differ from that was not authorised by the signer, whatever any sign-byte routine says.
	if sp := c.Meta.Spec; sp != nil && sp.SigOverride == nil && sp.SignedBy != nil {
		e.Count("c03.accepted_with_ground_truth")
		signedMsg, err1 := e.A.Cdc.MarshalBinaryBare(sp.Msg)
		gotMsg, err2 := e.A.Cdc.MarshalBinaryBare(tx.Msg)
		if err1 == nil && err2 == nil && !bytes.Equal(signedMsg, gotMsg) {
			viol("accepted-content-not-signed/msg", "the accepted message differs from the message the signer signed")
		}
		if sp.Memo != tx.Memo {
			viol("accepted-content-not-signed/memo", fmt.Sprintf("accepted memo %q, signed memo %q", tx.Memo, sp.Memo))
		}
		if sp.Entropy != tx.Entropy {
			viol("accepted-content-not-signed/entropy", fmt.Sprintf("accepted entropy %d, signed entropy %d", tx.Entropy, sp.Entropy))
		}
		sf := sp.SignedFee()
		same := len(sf) == len(tx.Fee)
		for i := 0; same && i < len(sf); i++ {
			if sf[i].Denom != tx.Fee[i].Denom || !sf[i].Amount.Equal(tx.Fee[i].Amount) {
				same = false
			}
		}
		if !same {
			viol("accepted-content-not-signed/fee", fmt.Sprintf("accepted fee %v, signed fee %v", tx.Fee, sf))
		}
		if sp.ChainID != "" && sp.ChainID != sim.ChainID {
			viol("accepted-content-not-signed/chain-id", fmt.Sprintf("signed for chain %q", sp.ChainID))
		}
	}
	// every denomination of the fee must have been held by the signer
	if sa := pre.Accounts[signer]; sa != nil && mode == "deliver" {
		if f2 := tx.Fee.AmountOf(sim.SecondDenom).BigInt(); f2.Sign() > 0 && (sa.Bal2 == nil || sa.Bal2.Cmp(f2) < 0) {
			viol("fee-not-funded/second-denomination", fmt.Sprintf("fee asks for %v %s, the signer held %v", f2, sim.SecondDenom, sa.Bal2))
		}
	}
	cp := sim.ParamsOf(pre)
	need := cp.RequiredFeeBig(c.Meta.MsgType)
	if tx.Fee.AmountOf(sim.Denom).BigInt().Cmp(need) < 0 {
		viol("fee-too-low/"+kind, fmt.Sprintf("fee %v below required %v", tx.Fee.AmountOf(sim.Denom), need))
	}
	if e.Idx.Has(c.Meta.Hash) && !txInCurrentBlockOnly(e, c) {
		viol("replay", "transaction hash is already in the chain's tx index")
	}
	// the same signed content under other bytes (trailing garbage, another encoding of the same transaction) is the
	// same transaction: executing it again in a later block is a replay even though its hash is new
	if msgBz, err := e.A.Cdc.MarshalBinaryBare(tx.Msg); err == nil && m.executed != nil {
		key := fmt.Sprintf("%s|%d|%x|%v|%q|%x", signer, tx.Entropy, msgBz, tx.Fee, tx.Memo, tx.Signature.Signature)
		if h0, seen := m.executed[key]; seen && h0 < c.H {
			viol("replay/same-signed-content", fmt.Sprintf("the same signed transaction (same signer, entropy, message, fee, memo, signature) was executed in block %d; these bytes differ from the indexed ones", h0))
		} else if mode == "deliver" && !seen {
			m.executed[key] = c.H
		}
	}
	if mode == "deliver" {
		dcol := sub(c.Post.View.Bal(FeeAddr), pre.Bal(FeeAddr))
		want := bi(c.Meta.Fee)
		// a successful transfer *to* the collector adds to it
		if deliverOK(c) {
			switch m := tx.Msg.(type) {
			case posTypes.MsgSend:
				if hexs(m.ToAddress) == FeeAddr {
					want = add(want, m.Amount.BigInt())
				}
			case govTypes.MsgDAOTransfer:
				if m.Action == govTypes.DAOTransferString && hexs(m.ToAddress) == FeeAddr {
					want = add(want, m.Amount.BigInt())
				}
			}
		}
		if dcol.Cmp(want) != 0 {
			viol("fee-not-collected", fmt.Sprintf("fee collector moved by %v, the transaction's fee is %d", dcol, c.Meta.Fee))
		}
		if !deliverOK(c) { // handler failed: the signer paid exactly the fee
			if d := sub(pre.Bal(signer), c.Post.View.Bal(signer)); d.Cmp(bi(c.Meta.Fee)) != 0 {
				viol("fee-not-from-signer", fmt.Sprintf("signer balance dropped by %v, fee is %d", d, c.Meta.Fee))
			}
		}
	}
}

func txInCurrentBlockOnly(e *sim.Env, c *sim.Call) bool { return false }

// ---------------------------------------------------------------------------------------------
// C11 — rejected transactions and read-only calls leave no trace.

type C11 struct{}

func accountKey(addrHex string) string {
	var b []byte
	fmt.Sscanf(addrHex, "%x", &b)
	return string(append([]byte{0x01}, b...))
}

func (C11) OnCall(e *sim.Env, c *sim.Call) {
	if c.Pre.Raw == nil || c.Post.Raw == nil {
		return
	}
	switch c.Kind {
	case "check", "query", "info":
		e.Count("c11.readonly." + c.Kind)
		if c.Panic != "" {
			if c.Kind == "check" {
				e.Violate("C11", "check-panic", fmt.Sprintf("CheckTx(%s)@%d panicked out of the application: %s", c.Entry.Label, c.H, firstLine(c.Panic)), c)
			} else {
				e.Count("c11.query_panics")
				e.Count("c11.query_panics" + pathClass(c.QReq.Path))
			}
			if c.Reopened {
				return
			}
		}
		if d := sim.DiffRaw(c.Pre.Raw, c.Post.Raw); len(d) > 0 {
			what := c.Kind
			if c.Kind == "query" {
				what = "query" + pathClass(c.QReq.Path)
			}
			e.Violate("C11", "readonly-mutates/"+what, fmt.Sprintf("%s (%s %s)@%d changed state: %v", c.Kind, c.Entry.Label, c.QReq.Path, c.H, briefDiff(d)), c)
		}
	case "deliver":
		if c.Panic != "" {
			e.Violate("C11", "deliver-panic", fmt.Sprintf("DeliverTx(%s)@%d panicked out of the application: %s", c.Entry.Label, c.H, firstLine(c.Panic)), c)
			return
		}
		if c.ResDeliver.Code == 0 {
			return
		}
		e.Count("c11.rejected_delivers")
		d := sim.DiffRaw(c.Pre.Raw, c.Post.Raw)
		if len(d) == 0 {
			e.Count("c11.rejected_no_trace")
			return
		}
		// allowed: exactly {signer -fee, fee collector +fee}
		ok := c.Meta != nil && c.Meta.Decoded
		if ok {
			allowed := map[string]bool{"auth/" + accountKey(c.Meta.Signer): true, "auth/" + accountKey(FeeAddr): true}
			for _, x := range d {
				if !allowed[x.Store+"/"+string(x.Key)] {
					ok = false
				}
			}
			fee := bi(c.Meta.Fee)
			pre, post := c.Pre.View, c.Post.View
			if ok {
				if c.Meta.Signer == FeeAddr {
					ok = false
				} else if sub(pre.Bal(c.Meta.Signer), post.Bal(c.Meta.Signer)).Cmp(fee) != 0 || sub(post.Bal(FeeAddr), pre.Bal(FeeAddr)).Cmp(fee) != 0 {
					ok = false
				}
			}
		}
		if ok {
			e.Count("c11.rejected_fee_only")
			return
		}
		sig := "rejected-tx-leaves-trace/" + c.Meta.MsgType
		if c.ResDeliver.Code == 12 && e.Init != nil && e.Init.MaxGas > 0 {
			// reported as out of gas by the *block* gas meter, which is charged after the message handler ran
			sig = "rejected-tx-leaves-trace/out-of-block-gas/" + c.Meta.MsgType
		}
		e.Violate("C11", sig, fmt.Sprintf("DeliverTx(%s)@%d was rejected with code %d but changed state beyond the fee: %v", c.Entry.Label, c.H, c.ResDeliver.Code, briefDiff(d)), c)
	}
}

func pathClass(p string) string {
	switch {
	case len(p) >= 13 && p[:13] == "/app/simulate":
		return "/app/simulate"
	case len(p) >= 6 && p[:6] == "/store":
		return "/store"
	case len(p) >= 7 && p[:7] == "/custom":
		return "/custom"
	case len(p) >= 4 && p[:4] == "/p2p":
		return "/p2p"
	case len(p) >= 4 && p[:4] == "/app":
		return "/app"
	}
	return "/other"
}

func briefDiff(d []sim.DiffEntry) string {
	var out []string
	for i, x := range d {
		if i >= 4 {
			out = append(out, fmt.Sprintf("... %d more", len(d)-4))
			break
		}
		out = append(out, fmt.Sprintf("%s/%x", x.Store, x.Key))
	}
	return fmt.Sprint(out)
}

// ---------------------------------------------------------------------------------------------
// C17 — governance.

type C17 struct{}

func aclOf(v *sim.View) govTypes.ACL {
	var acl govTypes.ACL
	if s, ok := v.Params["gov/acl"]; ok {
		_ = govTypes.ModuleCdc.UnmarshalJSON([]byte(s), &acl)
	}
	return acl
}

// aclOwners decodes the stored gov/acl JSON by itself and returns the distinct addresses (lower-case hex) named for key,
// in list order.
func aclOwners(v *sim.View, key string) []string {
	type pair struct {
		Key  string `json:"acl_key"`
		Addr string `json:"address"`
	}
	var pairs []pair
	if s, ok := v.Params["gov/acl"]; ok {
		// amino JSON of the registered interface: {"type":"gov/non_map_acl","value":[{acl_key,address},...]}
		var wrapped struct {
			Value []pair `json:"value"`
		}
		if json.Unmarshal([]byte(s), &wrapped) == nil && wrapped.Value != nil {
			pairs = wrapped.Value
		} else {
			_ = json.Unmarshal([]byte(s), &pairs)
		}
	}
	var out []string
	seen := map[string]bool{}
	for _, p := range pairs {
		a := lower(p.Addr)
		if p.Key == key && !seen[a] {
			seen[a] = true
			out = append(out, a)
		}
	}
	return out
}

func daoOwnerOf(v *sim.View) string {
	var o sdk.Address
	if s, ok := v.Params["gov/daoOwner"]; ok {
		_ = govTypes.ModuleCdc.UnmarshalJSON([]byte(s), &o)
	}
	return hexs(o)
}

// paramType returns a fresh zero value pointer of the registered Go type of a parameter.
func paramType(key string) interface{} {
	switch key {
	case "auth/MaxMemoCharacters", "auth/TxSigLimit", "pos/MaxValidators":
		return new(uint64)
	case "auth/FeeMultipliers":
		return new(authTypes.FeeMultipliers)
	case "pos/UnstakingTime", "pos/MaxEvidenceAge", "pos/DowntimeJailDuration":
		return new(time.Duration)
	case "pos/StakeDenom":
		return new(string)
	case "pos/StakeMinimum", "pos/SignedBlocksWindow":
		return new(int64)
	case "pos/ProposerRewardPercentage":
		return new(int8)
	case "pos/MinSignedPerWindow", "pos/SlashFractionDoubleSign", "pos/SlashFractionDowntime":
		return new(sdk.Dec)
	case "gov/acl":
		return new(govTypes.ACL)
	case "gov/daoOwner":
		return new(sdk.Address)
	case "gov/upgrade":
		return new(govTypes.Upgrade)
	}
	return nil
}

func jsonEquivalent(a, b []byte) bool {
	var x, y interface{}
	if json.Unmarshal(a, &x) != nil || json.Unmarshal(b, &y) != nil {
		return bytes.Equal(a, b)
	}
	xa, _ := json.Marshal(x)
	ya, _ := json.Marshal(y)
	return bytes.Equal(xa, ya)
}

func (C17) OnCall(e *sim.Env, c *sim.Call) {
	if c.Kind == "init" || c.Pre.View == nil || c.Post.View == nil || c.Reopened {
		return
	}
	pre, post := c.Pre.View, c.Post.View
	// which parameters changed?
	var changed []string
	for k, v := range post.Params {
		if pv, ok := pre.Params[k]; !ok || pv != v {
			changed = append(changed, k)
		}
	}
	for k := range pre.Params {
		if _, ok := post.Params[k]; !ok {
			changed = append(changed, k)
		}
	}
	isGov := false
	var gmsg sdk.Msg
	if c.Kind == "deliver" && c.Meta != nil && c.Meta.Decoded {
		switch c.Meta.Tx.Msg.(type) {
		case govTypes.MsgChangeParam, govTypes.MsgDAOTransfer, govTypes.MsgUpgrade:
			isGov, gmsg = true, c.Meta.Tx.Msg
		}
	}
	if len(changed) > 0 {
		if !isGov || !deliverOK(c) {
			e.Violate("C17", "param-changed-outside-governance/"+c.Kind, fmt.Sprintf("parameters %v changed in %s@%d (%s, code %d)", changed, c.Kind, c.H, c.Entry.Label, c.ResDeliver.Code), c)
			return
		}
	}
	if !isGov {
		return
	}
	sender := c.Meta.Signer
	ok := deliverOK(c)
	daoPre, daoPost := pre.Bal(DAOAddr), post.Bal(DAOAddr)
	switch m := gmsg.(type) {
	case govTypes.MsgChangeParam, govTypes.MsgUpgrade:
		key := "gov/upgrade"
		var reqVal []byte
		if cm, isC := m.(govTypes.MsgChangeParam); isC {
			key, reqVal = cm.ParamKey, cm.ParamVal
		} else {
			reqVal, _ = govTypes.ModuleCdc.MarshalJSON(m.(govTypes.MsgUpgrade).Upgrade)
		}
		// independent reading of the stored list (not posmint's GetOwner)
		owners := aclOwners(pre, key)
		owner := ""
		isOwner := false
		for _, o := range owners {
			if o != "" && o == sender {
				isOwner = true
			}
		}
		if len(owners) > 0 {
			owner = owners[0]
		}
		if len(owners) > 1 {
			// a replacement list may name a key twice with different addresses; the statement does not say which entry
			// counts, so any named address is accepted as "the owner" and everybody else must be refused
			e.Count("c17.acl_names_several_owners_for_key")
			owner = fmt.Sprint(owners)
		}
		if ok {
			e.Count("c17.gov_success")
			if !isOwner {
				e.Violate("C17", "non-owner-accepted", fmt.Sprintf("%s on %s by %s succeeded @%d; the access-control list names %s", c.Meta.MsgType, key, sender, c.H, owner), c)
			}
		} else {
			e.Count("c17.gov_rejected")
			if !isOwner {
				e.Count("c17.gov_rejected_non_owner")
			}
		}
		for _, k := range changed {
			if k != key {
				e.Violate("C17", "other-param-changed", fmt.Sprintf("governance message for %s by %s also changed %s @%d", key, sender, k, c.H), c)
			}
		}
		if len(changed) == 1 && changed[0] == key {
			e.Count("c17.param_changes")
			// the stored value must be the requested one (as the registered type re-encodes it)
			if t := paramType(key); t != nil {
				// Subspace.Update decodes the request over the current value of the registered type
				if pv, had := pre.Params[key]; had {
					_ = govTypes.ModuleCdc.UnmarshalJSON([]byte(pv), t)
				}
				if err := govTypes.ModuleCdc.UnmarshalJSON(reqVal, t); err == nil {
					canon, _ := govTypes.ModuleCdc.MarshalJSON(t)
					if !jsonEquivalent(canon, []byte(post.Params[key])) {
						e.Violate("C17", "value-ne-requested", fmt.Sprintf("parameter %s requested %s, stored %s", key, canon, post.Params[key]), c)
					}
				} else {
					e.Violate("C17", "malformed-value-stored", fmt.Sprintf("parameter %s changed to %s by a value that does not decode into its type: %q", key, post.Params[key], reqVal), c)
				}
			}
		}
		// nothing outside params / fee movement changes
		for _, x := range sim.DiffRaw(c.Pre.Raw, c.Post.Raw) {
			k := x.Store + "/" + string(x.Key)
			if x.Store == "params" || x.Store == "transient_params" {
				continue
			}
			if k == "auth/"+accountKey(sender) || k == "auth/"+accountKey(FeeAddr) {
				continue
			}
			e.Violate("C17", "gov-side-effect", fmt.Sprintf("governance message for %s changed %s/%x @%d", key, x.Store, x.Key, c.H), c)
			break
		}
		if daoPre.Cmp(daoPost) != 0 && sender != DAOAddr {
			e.Violate("C17", "dao-moved-by-param-msg", fmt.Sprintf("DAO balance moved by %v in a parameter message", sub(daoPost, daoPre)), c)
		}
	case govTypes.MsgDAOTransfer:
		owner := daoOwnerOf(pre)
		isOwner := owner != "" && owner == sender
		amt := m.Amount.BigInt()
		dDao := sub(daoPost, daoPre)
		dSup := sub(post.Supply, pre.Supply)
		if !ok {
			e.Count("c17.dao_rejected")
			if dDao.Sign() != 0 || dSup.Sign() != 0 {
				e.Violate("C17", "rejected-dao-moved-funds", fmt.Sprintf("rejected DAO %s by %s @%d moved DAO by %v, supply by %v", m.Action, sender, c.H, dDao, dSup), c)
			}
			// "not beyond the DAO balance": an honest request of the owner for a positive amount up to the whole
			// balance, to a plain 20-byte recipient, is inside the stated limit and is not refused
			if isOwner && c.Panic == "" && anteShouldPass(e, c) && amt.Sign() > 0 && amt.Cmp(daoPre) <= 0 && amt.IsInt64() && sender != DAOAddr &&
				(m.Action == govTypes.DAOBurnString || (m.Action == govTypes.DAOTransferString && len(m.ToAddress) == 20)) {
				e.Violate("C17", "valid-dao-request-refused", fmt.Sprintf("DAO %s of %v (DAO balance %v) by the owner %s was refused @%d with code %d: %s", m.Action, amt, daoPre, sender, c.H, c.ResDeliver.Code, firstLine(c.ResDeliver.Log)), c)
			}
			if amt.Cmp(daoPre) == 0 {
				e.Count("c17.dao_requests_for_the_whole_balance")
			}
			return
		}
		if amt.Cmp(daoPre) == 0 {
			e.Count("c17.dao_requests_for_the_whole_balance")
		}
		e.Count("c17.dao_success." + m.Action)
		if !isOwner {
			e.Violate("C17", "dao-non-owner-accepted", fmt.Sprintf("DAO %s by %s succeeded @%d; DAO owner is %s", m.Action, sender, c.H, owner), c)
		}
		if amt.Sign() <= 0 || amt.Cmp(daoPre) > 0 {
			e.Violate("C17", "dao-amount-out-of-range", fmt.Sprintf("DAO %s of %v succeeded with DAO balance %v", m.Action, amt, daoPre), c)
		}
		fee := bi(c.Meta.Fee)
		switch m.Action {
		case govTypes.DAOTransferString:
			to := hexs(m.ToAddress)
			wantDao := new(big.Int).Neg(amt)
			if to == DAOAddr {
				wantDao = new(big.Int)
			}
			if sender == DAOAddr {
				wantDao = sub(wantDao, fee)
			}
			if dDao.Cmp(wantDao) != 0 || dSup.Sign() != 0 {
				e.Violate("C17", "dao-transfer-amount", fmt.Sprintf("DAO transfer of %v: DAO moved by %v, supply by %v", amt, dDao, dSup), c)
			}
			if to != DAOAddr {
				wantTo := new(big.Int).Set(amt)
				if to == sender {
					wantTo = sub(wantTo, fee)
				}
				if to == FeeAddr {
					wantTo = add(wantTo, fee)
				}
				if d := sub(post.Bal(to), pre.Bal(to)); d.Cmp(wantTo) != 0 {
					e.Violate("C17", "dao-transfer-recipient", fmt.Sprintf("DAO transfer of %v to %s: recipient moved by %v", amt, to, d), c)
				}
			}
		case govTypes.DAOBurnString:
			if dDao.Cmp(new(big.Int).Neg(amt)) != 0 || dSup.Cmp(new(big.Int).Neg(amt)) != 0 {
				e.Violate("C17", "dao-burn-amount", fmt.Sprintf("DAO burn of %v: DAO moved by %v, supply by %v", amt, dDao, dSup), c)
			}
		default:
			if dDao.Sign() != 0 || dSup.Sign() != 0 {
				e.Violate("C17", "dao-unknown-action-moved-funds", fmt.Sprintf("DAO action %q moved funds", m.Action), c)
			}
		}
		// nobody else moves
		for a := range post.Accounts {
			if a == DAOAddr || a == sender || a == FeeAddr || a == hexs(m.ToAddress) {
				continue
			}
			if d := sub(post.Bal(a), pre.Bal(a)); d.Sign() != 0 {
				e.Violate("C17", "dao-bystander", fmt.Sprintf("DAO %s moved the balance of bystander %s by %v", m.Action, a, d), c)
			}
		}
	}
}

// anteShouldPass: by the harness's own ground truth this transaction is an honest, properly signed, sufficiently funded,
// fresh transaction of its signer — nothing in the ante handler's contract justifies refusing it.
func anteShouldPass(e *sim.Env, c *sim.Call) bool {
	if c.Meta == nil || !c.Meta.Decoded || c.Meta.Spec == nil || c.Pre.View == nil {
		return false
	}
	sp := c.Meta.Spec
	if sp.Mutate != nil || sp.SigOverride != nil || sp.SignedBy == nil || sp.FeeRaw != nil || sp.SignedBy.Multi != nil {
		return false
	}
	if sp.ChainID != "" && sp.ChainID != sim.ChainID {
		return false
	}
	signer := c.Meta.Signer
	if hexs(sp.SignedBy.Addr) != signer {
		return false
	}
	acc := c.Pre.View.Accounts[signer]
	if acc == nil {
		return false
	}
	if sp.PubInSig != nil {
		if fmt.Sprintf("%x", IndepAddress(sp.PubInSig)) != signer {
			return false
		}
	} else if !acc.HasPub || fmt.Sprintf("%x", IndepAddress(acc.Pub)) != signer {
		return false
	}
	cp := sim.ParamsOf(c.Pre.View)
	if bi(sp.Fee).Cmp(cp.RequiredFeeBig(c.Meta.MsgType)) < 0 || acc.Bal.Cmp(bi(sp.Fee)) < 0 {
		return false
	}
	if uint64(len(sp.Memo)) > uint64(cp.MaxMemo) {
		return false
	}
	if e.Idx.Has(c.Meta.Hash) {
		return false
	}
	return true
}
