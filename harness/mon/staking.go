package mon

import (
	"encoding/json"
	"fmt"
	"math/big"
	"sort"
	"time"

	"verif/harness/sim"

	posTypes "github.com/pokt-network/posmint/x/pos/types"
)

// expectedSet computes what the statement of C05 says Tendermint's set must be, from a snapshot:
// the MaxValidators highest-powered staked, unjailed validators, power floor(stake/10^6),
// ties at the cut-off broken by address (ascending).
func expectedSet(v *sim.View) map[string]int64 {
	cp := sim.ParamsOf(v)
	type cand struct {
		addr string
		pow  int64
	}
	var cs []cand
	for a, x := range v.Vals {
		if x.Status == 2 && !x.Jailed {
			cs = append(cs, cand{a, powerOf(x.Tokens)})
		}
	}
	sort.Slice(cs, func(i, j int) bool {
		if cs[i].pow != cs[j].pow {
			return cs[i].pow > cs[j].pow
		}
		return cs[i].addr < cs[j].addr
	})
	out := map[string]int64{}
	for i, c := range cs {
		if uint64(i) >= cp.MaxVals {
			break
		}
		out[c.addr] = c.pow
	}
	return out
}

func diffSets(want, got map[string]int64) string {
	var out []string
	for a, p := range want {
		if g, ok := got[a]; !ok {
			out = append(out, fmt.Sprintf("missing %.8s(power %d)", a, p))
		} else if g != p {
			out = append(out, fmt.Sprintf("%.8s power %d want %d", a, g, p))
		}
	}
	for a, p := range got {
		if _, ok := want[a]; !ok {
			out = append(out, fmt.Sprintf("extra %.8s(power %d)", a, p))
		}
	}
	sort.Strings(out)
	if len(out) > 6 {
		out = append(out[:6], "...")
	}
	return fmt.Sprint(out)
}

// ---------------------------------------------------------------------------------------------
// C05

type C05 struct{}

func (C05) OnCall(e *sim.Env, c *sim.Call) {
	if c.Kind != "init" && c.Kind != "end" {
		return
	}
	if c.Panic != "" {
		if c.Kind == "end" {
			e.Violate("C05", "endblock-panic/"+panicClass(c.Panic), fmt.Sprintf("EndBlock@%d panicked: %s", c.H, firstLine(c.Panic)), c)
		}
		return
	}
	h := c.H
	target := h + 2
	if c.Kind == "init" {
		target = 1
	}
	if c.ApplyErr != nil {
		cls := applyClass(c.ApplyErr.Error())
		if cls == "empty-set" && c.Post.View != nil && len(expectedSet(c.Post.View)) == 0 {
			// nobody is left who is staked and not jailed: the set the statement asks for is empty, which Tendermint
			// cannot represent
			cls = "empty-set/no-validator-left"
		}
		e.Violate("C05", "updates-rejected/"+cls, fmt.Sprintf("%s@%d: Tendermint's validator set refuses the updates: %v", c.Kind, h, c.ApplyErr), c)
		return
	}
	e.Count("c05.sets_compared")
	var ups int
	if c.Kind == "end" {
		ups = len(c.ResEnd.ValidatorUpdates)
	} else {
		ups = len(c.ResInit.Validators)
	}
	if ups > 0 {
		e.Count("c05.nonempty_update_batches")
	}
	want := expectedSet(c.Post.View)
	got := e.Chain.PowerMap(target)
	cp := sim.ParamsOf(c.Post.View)
	nc := 0
	for _, x := range c.Post.View.Vals {
		if x.Status == 2 && !x.Jailed {
			nc++
		}
	}
	if uint64(nc) > cp.MaxVals {
		e.Count("c05.cutoff_active")
	}
	if d := diffSets(want, got); d != "[]" {
		e.Violate("C05", "set-mismatch", fmt.Sprintf("after %s@%d Tendermint's set for height %d differs from the staked set: %s", c.Kind, h, target, d), c)
	}
	// the module's memory of Tendermint's set must agree with Tendermint
	if d := diffSets(got, c.Post.View.PrevPower); d != "[]" {
		e.Violate("C05", "prevstate-mismatch", fmt.Sprintf("after %s@%d the stored previous-state powers disagree with Tendermint's set: %s", c.Kind, h, d), c)
	}
}

func panicClass(p string) string {
	switch {
	case contains(p, "validator record not found"):
		return "validator-record-not-found"
	case contains(p, "jailed validator"):
		return "jailed-in-index"
	case contains(p, "zero consensus power"):
		return "zero-power-in-index"
	case contains(p, "nil pointer"):
		return "nil-deref"
	}
	return "other"
}

func applyClass(s string) string {
	switch {
	case contains(s, "to remove"):
		return "remove-unknown"
	case contains(s, "duplicate"):
		return "duplicate"
	case contains(s, "negative"):
		return "negative-power"
	case contains(s, "empty set"):
		return "empty-set"
	case contains(s, "unsupported"):
		return "key-type"
	}
	return "other"
}

func contains(s, sub string) bool { return len(s) >= len(sub) && (indexOf(s, sub) >= 0) }
func indexOf(s, sub string) int {
	for i := 0; i+len(sub) <= len(s); i++ {
		if s[i:i+len(sub)] == sub {
			return i
		}
	}
	return -1
}
func firstLine(s string) string {
	for i := 0; i < len(s); i++ {
		if s[i] == '\n' {
			return s[:i]
		}
	}
	return s
}

// ---------------------------------------------------------------------------------------------
// C06 — lifecycle edges, timely payout, index / queue structure, minimum stake.

type C06 struct {
	// minMin: the smallest minimum stake that was in force so far in this history. A validator that satisfied
	// the minimum when it was checked may sit below a minimum governance raised later (nothing in the
	// statement re-checks existing stakes), so the below-minimum predicate uses this value.
	minMin int64
}

func status(v *sim.View, a string) int {
	if x, ok := v.Vals[a]; ok {
		return x.Status
	}
	return -1
}

var statusName = map[int]string{-1: "absent", 0: "unstaked", 1: "unstaking", 2: "staked"}

func (m *C06) OnCall(e *sim.Env, c *sim.Call) {
	// an EndBlock that dies while a matured validator waits for its stake never pays it
	if c.Kind == "end" && c.Panic != "" && c.Pre.View != nil {
		for a, x := range c.Pre.View.Vals {
			if x.Status == 1 && !x.Unstaking.After(c.Time) {
				e.Violate("C06", "payout-panics", fmt.Sprintf("EndBlock@%d panicked (%s) while validator %s (stake %v) was due for its payout (completion %v)", c.H, firstLine(c.Panic), a, x.Tokens, x.Unstaking), c)
				break
			}
		}
	}
	post := c.Post.View
	if post == nil || (c.Panic != "" && c.Kind == "init") {
		return
	}
	if !c.Reopened {
		c06Structure(e, c, post, m)
	}
	if c.Kind == "init" || c.Reopened {
		return
	}
	pre := c.Pre.View
	cp := sim.ParamsOf(pre)
	addrs := map[string]bool{}
	for a := range pre.Vals {
		addrs[a] = true
	}
	for a := range post.Vals {
		addrs[a] = true
	}
	for a := range addrs {
		s0, s1 := status(pre, a), status(post, a)
		if s0 == s1 {
			continue
		}
		edge := statusName[s0] + "->" + statusName[s1]
		e.Count("c06.edge." + edge)
		bad := func(why string) {
			e.Violate("C06", "illegal-edge/"+edge+"/"+c.Kind, fmt.Sprintf("validator %s went %s in %s@%d (%s): %s", a, edge, c.Kind, c.H, c.Entry.Label, why), c)
		}
		switch {
		case (s0 == -1 || s0 == 0) && s1 == 2:
			msg, ok := stakeMsg(c)
			if !ok || !deliverOK(c) || c.Meta.Signer != a {
				bad("not a successful stake transaction of its own")
				continue
			}
			amt := msg.Value.BigInt()
			if amt.Cmp(bi(cp.Min)) < 0 {
				bad(fmt.Sprintf("staked %v below the minimum %d", amt, cp.Min))
			}
			if d := sub(pre.Bal(a), post.Bal(a)); d.Cmp(add(amt, bi(c.Meta.Fee))) != 0 {
				bad(fmt.Sprintf("stake %v not funded: balance dropped by %v", amt, d))
			}
		case s0 == 2 && s1 == 1:
			_, isUn := unstakeMsg(c)
			if !isUn || !deliverOK(c) || c.Meta.Signer != a {
				bad("not a successful begin-unstake of its own")
				continue
			}
			want := c.Time.Add(cp.Unstaking)
			if !post.Vals[a].Unstaking.Equal(want) {
				e.Violate("C06", "completion-time", fmt.Sprintf("validator %s began unstaking at %v with UnstakingTime %v but completion is stamped %v", a, c.Time, cp.Unstaking, post.Vals[a].Unstaking), c)
			}
		case s0 == 1 && s1 == -1:
			if c.Kind != "end" {
				bad("removed outside EndBlock")
				continue
			}
			pv := pre.Vals[a]
			if c.Time.Before(pv.Unstaking) {
				e.Violate("C06", "early-payout", fmt.Sprintf("validator %s paid out at %v before its completion time %v", a, c.Time, pv.Unstaking), c)
			}
			if d := sub(post.Bal(a), pre.Bal(a)); d.Cmp(pv.Tokens) != 0 {
				e.Violate("C06", "payout-amount", fmt.Sprintf("validator %s removed with stake %v but account moved by %v", a, pv.Tokens, d), c)
			}
			e.Count("c06.payouts")
			if c.Time.Equal(pv.Unstaking) {
				e.Count("c06.payout_exactly_at_completion")
			}
		case s1 == 0:
			if c.Kind != "begin" {
				bad("forced unstake outside BeginBlock")
			}
			e.Count("c06.forced_unstakes")
		default:
			bad("no rule allows this transition")
		}
	}
	// the stated threshold is "at least the minimum": an honest, funded stake of the minimum or more by a key that is
	// free to stake is not refused
	if msg, ok := stakeMsg(c); ok && c.Panic == "" && !deliverOK(c) && anteShouldPass(e, c) {
		a := c.Meta.Signer
		amt := msg.Value.BigInt()
		pv, isVal := pre.Vals[a]
		_, tomb := pre.Sign[a]
		if tomb {
			tomb = pre.Sign[a].Tombstoned
		}
		fee := bi(c.Meta.Spec.Fee)
		if (!isVal || pv.Status == 0) && !tomb && amt.Cmp(bi(cp.Min)) >= 0 && amt.IsInt64() && msg.PubKey != nil &&
			fmt.Sprintf("%T", msg.PubKey) == "crypto.Ed25519PublicKey" && hexs(msg.PubKey.Address().Bytes()) == a &&
			pre.Bal(a).Cmp(add(amt, fee)) >= 0 {
			e.Count("c06.valid_stakes_refused")
			e.Violate("C06", "valid-stake-refused", fmt.Sprintf("stake of %v (minimum %d) by %s, funded (balance %v, fee %v), not a validator / unstaked, not tombstoned, was refused @%d with code %d: %s", amt, cp.Min, a, pre.Bal(a), fee, c.H, c.ResDeliver.Code, firstLine(c.ResDeliver.Log)), c)
		}
	}
	if msg, ok := stakeMsg(c); ok && deliverOK(c) && msg.Value.BigInt().Cmp(bi(cp.Min)) == 0 {
		e.Count("c06.stakes_of_exactly_the_minimum_accepted")
	}
	// timely payout: after EndBlock nobody may still be unstaking past its completion time
	if c.Kind == "end" && c.Panic == "" {
		for a, x := range post.Vals {
			if x.Status == 1 && !x.Unstaking.After(c.Time) {
				e.Violate("C06", "late-payout", fmt.Sprintf("validator %s still unstaking after EndBlock@%d at %v although its completion time %v has passed", a, c.H, c.Time, x.Unstaking), c)
			}
		}
	}
	// stake changes of a validator that keeps its status may only be burns in BeginBlock
	for a, pv := range pre.Vals {
		qv, ok := post.Vals[a]
		if !ok || pv.Status != qv.Status {
			continue
		}
		if d := sub(qv.Tokens, pv.Tokens); d.Sign() != 0 && c.Kind != "begin" {
			e.Violate("C06", "stake-changed/"+c.Kind, fmt.Sprintf("stake of %s changed by %v in %s@%d without a status change", a, d, c.Kind, c.H), c)
		}
	}
}

func stakeMsg(c *sim.Call) (posTypes.MsgStake, bool) {
	if c.Kind != "deliver" || c.Meta == nil || !c.Meta.Decoded {
		return posTypes.MsgStake{}, false
	}
	m, ok := c.Meta.Tx.Msg.(posTypes.MsgStake)
	return m, ok
}
func unstakeMsg(c *sim.Call) (posTypes.MsgBeginUnstake, bool) {
	if c.Kind != "deliver" || c.Meta == nil || !c.Meta.Decoded {
		return posTypes.MsgBeginUnstake{}, false
	}
	m, ok := c.Meta.Tx.Msg.(posTypes.MsgBeginUnstake)
	return m, ok
}

func c06Structure(e *sim.Env, c *sim.Call, v *sim.View, m *C06) {
	cp := sim.ParamsOf(v)
	if m.minMin == 0 || cp.Min < m.minMin {
		m.minMin = cp.Min
	}
	e.Count("c06.structure_checks")
	inIndex := map[string]int{}
	for _, ie := range v.Index {
		inIndex[ie.Addr]++
		x, ok := v.Vals[ie.Addr]
		switch {
		case ie.Addr != ie.Value:
			e.Violate("C06", "index-key-value", fmt.Sprintf("power-index key decodes to %s but stores %s (after %s@%d)", ie.Addr, ie.Value, c.Kind, c.H), c)
		case !ok:
			e.Violate("C06", "index-dangling", fmt.Sprintf("power-index entry for %s without a validator record (after %s@%d)", ie.Addr, c.Kind, c.H), c)
		case x.Status != 2:
			e.Violate("C06", "index-not-staked/"+statusName[x.Status], fmt.Sprintf("power-index lists %s whose status is %s (after %s@%d %s)", ie.Addr, statusName[x.Status], c.Kind, c.H, c.Entry.Label), c)
		case x.Jailed:
			e.Violate("C06", "index-jailed", fmt.Sprintf("power-index lists jailed validator %s (after %s@%d)", ie.Addr, c.Kind, c.H), c)
		case uint64(powerOf(x.Tokens)) != ie.Power:
			e.Violate("C06", "index-stale-power", fmt.Sprintf("power-index lists %s under power %d but its stake %v gives %d (after %s@%d)", ie.Addr, ie.Power, x.Tokens, powerOf(x.Tokens), c.Kind, c.H), c)
		}
	}
	for a, n := range inIndex {
		if n > 1 {
			e.Violate("C06", "index-duplicate", fmt.Sprintf("validator %s has %d power-index entries (after %s@%d)", a, n, c.Kind, c.H), c)
		}
	}
	queued := map[string][]sim.QueueEntry{}
	for _, q := range v.Queue {
		for _, a := range q.Addrs {
			queued[a] = append(queued[a], q)
		}
	}
	for a, x := range v.Vals {
		if x.Status == 2 && !x.Jailed && inIndex[a] == 0 {
			e.Violate("C06", "staked-not-indexed", fmt.Sprintf("staked, unjailed validator %s (stake %v) has no power-index entry (after %s@%d %s)", a, x.Tokens, c.Kind, c.H, c.Entry.Label), c)
		}
		if x.Status == 1 {
			ok := false
			for _, q := range queued[a] {
				if q.Time.Equal(x.Unstaking) {
					ok = true
				}
			}
			if !ok {
				e.Violate("C06", "unstaking-not-queued", fmt.Sprintf("unstaking validator %s is not queued at its completion time %v (after %s@%d)", a, x.Unstaking, c.Kind, c.H), c)
			}
		}
		if x.Status != 0 && x.Tokens.Cmp(big.NewInt(m.minMin)) < 0 {
			e.Violate("C06", "below-minimum/"+statusName[x.Status], fmt.Sprintf("%s validator %s holds %v, below the minimum stake %d (after %s@%d %s)", statusName[x.Status], a, x.Tokens, m.minMin, c.Kind, c.H, c.Entry.Label), c)
		}
	}
}

// ---------------------------------------------------------------------------------------------
// C09 — jailed => no power; unjail preconditions; tombstone is permanent.

type C09 struct {
	tomb     map[string]bool
	unjailed map[string]bool      // unjailed successfully in the current block
	until    map[string]time.Time // the monitor's own record of each validator's jailed-until (set when it observes the jailing)
}

func NewC09() *C09 {
	return &C09{tomb: map[string]bool{}, unjailed: map[string]bool{}, until: map[string]time.Time{}}
}

func (m *C09) OnCall(e *sim.Env, c *sim.Call) {
	post := c.Post.View
	if c.Kind == "init" && c.Entry.Init != nil && c.Panic == "" {
		// tombstones stated by the genesis request itself (not what the application stored of them)
		var gs map[string]json.RawMessage
		if json.Unmarshal(c.Entry.Init.AppState, &gs) == nil {
			var pg struct {
				SigningInfos map[string]struct {
					Tombstoned bool `json:"tombstoned"`
				} `json:"signing_infos"`
			}
			if json.Unmarshal(gs["pos"], &pg) == nil {
				for a, si := range pg.SigningInfos {
					if si.Tombstoned {
						m.tomb[lower(a)] = true
						e.Count("c09.tombstones_from_genesis")
					}
				}
			}
		}
		if post != nil {
			for a := range m.tomb {
				if s, ok := post.Sign[a]; !ok || !s.Tombstoned {
					e.Violate("C09", "tombstone-cleared/genesis", fmt.Sprintf("the genesis state lists %s as tombstoned; after InitChain it is not", a), c)
				}
			}
		}
		return
	}
	if post == nil || c.Kind == "init" || c.Reopened {
		return
	}
	pre := c.Pre.View
	if sim.ParamsOf(post).Min > sim.ParamsOf(pre).Min {
		e.Count("c09.minimum_stake_raised")
	}
	// successful unjail => preconditions held in the pre-state
	if deliverOK(c) && c.Meta.Decoded {
		if msg, ok := c.Meta.Tx.Msg.(posTypes.MsgUnjail); ok {
			a := hexs(msg.ValidatorAddr)
			cp := sim.ParamsOf(pre)
			e.Count("c09.unjail_success")
			if s := pre.Sign[a]; s != nil && c.Time.Equal(s.JailedUntil) {
				e.Count("c09.unjail_exactly_at_jailed_until")
			}
			v, found := pre.Vals[a]
			si := pre.Sign[a]
			switch {
			case !found:
				e.Violate("C09", "unjail-unknown", fmt.Sprintf("unjail of unknown validator %s succeeded @%d", a, c.H), c)
			case !v.Jailed:
				e.Violate("C09", "unjail-not-jailed", fmt.Sprintf("unjail of validator %s that is not jailed succeeded @%d", a, c.H), c)
			case v.Tokens.Cmp(bi(cp.Min)) < 0:
				e.Violate("C09", "unjail-below-min", fmt.Sprintf("unjail of %s with stake %v < minimum %d succeeded @%d", a, v.Tokens, cp.Min, c.H), c)
			case si == nil:
				e.Violate("C09", "unjail-no-signing-info", fmt.Sprintf("unjail of %s without signing info succeeded", a), c)
			case si.Tombstoned:
				e.Violate("C09", "unjail-tombstoned", fmt.Sprintf("tombstoned validator %s was unjailed @%d", a, c.H), c)
			case c.Time.Before(si.JailedUntil):
				e.Violate("C09", "unjail-too-early", fmt.Sprintf("validator %s unjailed at %v before jailed-until %v", a, c.Time, si.JailedUntil), c)
			}
			// the same rule against the monitor's own record (the stored value may have been lost or rewritten)
			if u, ok := m.until[a]; ok && c.Time.Before(u) {
				e.Violate("C09", "unjail-too-early/jailed-until-rewritten", fmt.Sprintf("validator %s unjailed at %v; it was jailed until %v (stored jailed-until now %v)", a, c.Time, u, si.JailedUntil), c)
			}
			if found && v.Status != 2 {
				e.Count("c09.unjail_success_not_staked")
			}
			m.unjailed[a] = true
			if pv, ok := post.Vals[a]; !ok || pv.Jailed {
				e.Violate("C09", "unjail-no-effect", fmt.Sprintf("unjail of %s succeeded but it is still jailed", a), c)
			}
		} else if _, isUnjail := c.Meta.Tx.Msg.(posTypes.MsgUnjail); isUnjail {
			e.Count("c09.unjail_refused")
		}
	} else if c.Kind == "deliver" && c.Meta.Decoded {
		if msg, isUnjail := c.Meta.Tx.Msg.(posTypes.MsgUnjail); isUnjail {
			e.Count("c09.unjail_refused")
			a := hexs(msg.ValidatorAddr)
			// every stated precondition holds (jailed, stake of at least the minimum, jailed-until reached, not
			// tombstoned) and the request is an honest one of the validator itself: it is not refused
			if v, ok := pre.Vals[a]; ok && v.Jailed && v.Status == 2 && c.Panic == "" && anteShouldPass(e, c) && c.Meta.Signer == a {
				if s := pre.Sign[a]; s != nil && !s.Tombstoned && !c.Time.Before(s.JailedUntil) && v.Tokens.Cmp(bi(sim.ParamsOf(pre).Min)) >= 0 {
					e.Violate("C09", "valid-unjail-refused", fmt.Sprintf("unjail of %s (stake %v, minimum %d, jailed until %v, now %v) was refused @%d with code %d: %s", a, v.Tokens, sim.ParamsOf(pre).Min, s.JailedUntil, c.Time, c.H, c.ResDeliver.Code, firstLine(c.ResDeliver.Log)), c)
				}
			}
			if v, ok := pre.Vals[a]; ok && v.Jailed {
				if s := pre.Sign[a]; s != nil && !s.Tombstoned && !c.Time.Before(s.JailedUntil) && v.Status == 2 && v.Tokens.Cmp(bi(sim.ParamsOf(pre).Min)) < 0 {
					e.Count("c09.unjail_refused_below_raised_minimum")
				}
				if s := pre.Sign[a]; s != nil && !s.Tombstoned && c.Time.Before(s.JailedUntil) {
					e.Count("c09.unjail_refused_too_early")
					if s.JailedUntil.Sub(c.Time) <= 1e9 {
						e.Count("c09.unjail_refused_one_second_early")
					}
				}
			}
		}
	}
	// jailed flag may only clear through a successful unjail of that validator
	for a, pv := range pre.Vals {
		qv, ok := post.Vals[a]
		if ok && pv.Jailed && !qv.Jailed {
			msg, isU := posTypes.MsgUnjail{}, false
			if c.Kind == "deliver" && c.Meta.Decoded {
				msg, isU = c.Meta.Tx.Msg.(posTypes.MsgUnjail)
			}
			if !isU || !deliverOK(c) || hexs(msg.ValidatorAddr) != a {
				e.Violate("C09", "unjailed-without-request/"+c.Kind, fmt.Sprintf("validator %s lost its jailed flag in %s@%d (%s)", a, c.Kind, c.H, c.Entry.Label), c)
			}
		}
		if ok && !pv.Jailed && qv.Jailed {
			e.Count("c09.jailings")
			if c.Kind != "begin" {
				e.Violate("C09", "jailed-outside-begin/"+c.Kind, fmt.Sprintf("validator %s was jailed in %s@%d", a, c.Kind, c.H), c)
			}
			// jailed for downtime: until block time + DowntimeJailDuration; for a double sign: forever
			if s := post.Sign[a]; s != nil {
				cp := sim.ParamsOf(pre)
				want := c.Time.Add(cp.JailDur)
				if s.Tombstoned {
					want = s.JailedUntil
				}
				if !s.JailedUntil.Equal(want) {
					e.Violate("C09", "jailed-until-stamp", fmt.Sprintf("validator %s jailed at %v with DowntimeJailDuration %v: jailed-until stamped %v", a, c.Time, cp.JailDur, s.JailedUntil), c)
				}
				m.until[a] = want
			}
		}
	}
	// a jailed validator must not sit in the power index (that is what gives it power at the next EndBlock)
	for _, ie := range post.Index {
		if v, ok := post.Vals[ie.Addr]; ok && v.Jailed {
			e.Violate("C09", "jailed-in-power-index", fmt.Sprintf("jailed validator %s is listed in the power index after %s@%d (%s)", ie.Addr, c.Kind, c.H, c.Entry.Label), c)
		}
	}
	if c.Kind == "end" && c.Panic != "" && contains(c.Panic, "jailed validator") {
		e.Violate("C09", "jailed-in-power-index/endblock-panic", fmt.Sprintf("EndBlock@%d panicked on a jailed validator in the staked set: %s", c.H, firstLine(c.Panic)), c)
	}
	// a punished double sign leaves the offender tombstoned and jailed, whatever it was before (already jailed for
	// downtime, unstaking, ...)
	if c.Kind == "begin" && c.Panic == "" {
		for _, ev := range slashEvents(c.ResBegin.Events) {
			if ev.Reason != posTypes.AttributeValueDoubleSign {
				continue
			}
			e.Count("c09.double_sign_punishments")
			if pv, ok := pre.Vals[ev.Addr]; ok && pv.Jailed {
				e.Count("c09.double_sign_while_already_jailed")
			}
			if s, ok := post.Sign[ev.Addr]; !ok || !s.Tombstoned {
				e.Violate("C09", "double-sign-not-tombstoned", fmt.Sprintf("BeginBlock@%d punished a double sign of %s but it is not tombstoned afterwards", c.H, ev.Addr), c)
			}
			if v, ok := post.Vals[ev.Addr]; ok && !v.Jailed {
				e.Violate("C09", "double-sign-not-jailed", fmt.Sprintf("BeginBlock@%d punished a double sign of %s but it is not jailed afterwards", c.H, ev.Addr), c)
			}
		}
	}
	// double-sign evidence that the statement makes punishable (known key, not older than MaxEvidenceAge — the age limit is
	// inclusive —, offender staked or unstaking and not yet tombstoned) and that nothing else in the same BeginBlock can
	// interfere with (no queued burn, no missed vote for the offender) leaves the offender tombstoned and jailed
	if c.Kind == "begin" && c.Panic == "" && c.Entry.Begin != nil {
		cp := sim.ParamsOf(pre)
		missed := map[string]bool{}
		for _, v := range c.Entry.Begin.Votes {
			if !v.Signed {
				missed[v.Addr] = true
			}
		}
		for _, ev := range c.Entry.Begin.Evidence {
			if _, burnQueued := pre.Burns[ev.Addr]; burnQueued || sim.EvidenceClass(pre, cp, ev, c.Time) != "valid" || missed[ev.Addr] {
				continue
			}
			e.Count("c09.punishable_evidence")
			if c.Time.Sub(ev.At()) == cp.MaxEvAge {
				e.Count("c09.punishable_evidence_exactly_at_max_age")
			}
			if s, ok := post.Sign[ev.Addr]; !ok || !s.Tombstoned {
				e.Violate("C09", "punishable-double-sign-ignored", fmt.Sprintf("BeginBlock@%d carried double-sign evidence against %s (age %v, max %v, status %s) but the offender is not tombstoned afterwards", c.H, ev.Addr, c.Time.Sub(ev.At()), cp.MaxEvAge, statusName[pre.Vals[ev.Addr].Status]), c)
			} else if v, ok := post.Vals[ev.Addr]; ok && !v.Jailed {
				e.Violate("C09", "double-sign-not-jailed", fmt.Sprintf("BeginBlock@%d: double-sign convict %s is not jailed afterwards", c.H, ev.Addr), c)
			}
		}
	}
	// tombstone: permanent, and implies jailed
	for a, s := range post.Sign {
		if s.Tombstoned {
			if !m.tomb[a] {
				e.Count("c09.tombstones")
			}
			m.tomb[a] = true
		}
	}
	for a := range m.tomb {
		if s, ok := post.Sign[a]; !ok || !s.Tombstoned {
			e.Violate("C09", "tombstone-cleared", fmt.Sprintf("validator %s is no longer tombstoned after %s@%d", a, c.Kind, c.H), c)
		}
		if v, ok := post.Vals[a]; ok && !v.Jailed {
			e.Violate("C09", "tombstoned-not-jailed", fmt.Sprintf("tombstoned validator %s is not jailed after %s@%d", a, c.Kind, c.H), c)
		}
	}
	if c.Kind == "end" && c.Panic == "" && c.ApplyErr == nil {
		got := e.Chain.PowerMap(c.H + 2)
		for a, v := range post.Vals {
			if v.Jailed {
				e.Count("c09.jailed_checked")
				if p, in := got[a]; in {
					e.Violate("C09", "jailed-has-power", fmt.Sprintf("jailed validator %s is in Tendermint's set for height %d with power %d", a, c.H+2, p), c)
				}
			}
		}
		want := expectedSet(post)
		for a := range m.unjailed {
			v, ok := post.Vals[a]
			if !ok || v.Jailed || v.Status != 2 {
				continue
			}
			if w, in := want[a]; in {
				e.Count("c09.unjail_power_checked")
				if got[a] != w {
					e.Violate("C09", "unjail-power", fmt.Sprintf("validator %s unjailed in block %d has power %d in Tendermint's next set, its stake %v gives %d", a, c.H, got[a], v.Tokens, w), c)
				}
			}
		}
		m.unjailed = map[string]bool{}
	}
}
