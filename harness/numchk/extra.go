package numchk

import (
	"fmt"
	"math"
	"math/big"
	"sort"
	"strings"

	"verif/harness/sim"

	sdk "github.com/pokt-network/posmint/types"
)

// CheckExtra covers the exported helpers around Int / Uint / Dec / Coins / DecCoins that the operation checks
// (CheckInt, CheckUint, CheckDec, CheckCoins, CheckDecCoins) do not reach: text parsing and formatting, the
// mixed-type operations (Dec x Int, Uint x uint64), constructors with scaling, min/max, and the set-level
// multiplication / division / intersection of decimal coins. References are exact big.Int computations.
func CheckExtra(r *sim.Rand, rep Reporter) {
	switch r.Intn(7) {
	case 0:
		extraInt(r, rep)
	case 1:
		extraUint(r, rep)
	case 2:
		extraDecText(r, rep)
	case 3:
		extraDecMixed(r, rep)
	case 4:
		extraCoinsText(r, rep)
	case 5:
		extraCoinsSets(r, rep)
	default:
		extraDecCoins(r, rep)
	}
}

func pow10(n int) *big.Int { return new(big.Int).Exp(big.NewInt(10), big.NewInt(int64(n)), nil) }

// ---- Int ------------------------------------------------------------------------------------------------------------

func extraInt(r *sim.Rand, rep Reporter) {
	rep.Count("c18.extra.int", 1)
	a := GenBig(r, 255, true)
	ia := sdk.NewIntFromBigInt(a)
	// text: decimal string <-> value
	s := a.String()
	if got, ok := sdk.NewIntFromString(s); !ok || got.BigInt().Cmp(a) != 0 {
		rep.Violate("C18", "int-text/NewIntFromString", fmt.Sprintf("NewIntFromString(%q) = %v, ok=%v", s, got, ok))
	}
	if ia.String() != s {
		rep.Violate("C18", "int-text/String", fmt.Sprintf("Int(%v).String() = %q", a, ia.String()))
	}
	if txt, err := ia.MarshalAmino(); err != nil || txt != s {
		rep.Violate("C18", "int-text/MarshalAmino", fmt.Sprintf("Int(%v).MarshalAmino() = %q, %v", a, txt, err))
	} else {
		var back sdk.Int
		if err := back.UnmarshalAmino(txt); err != nil || back.BigInt().Cmp(a) != 0 {
			rep.Violate("C18", "int-text/UnmarshalAmino", fmt.Sprintf("UnmarshalAmino(%q) = %v, %v", txt, back, err))
		}
	}
	// out of range / malformed text is refused
	big256 := new(big.Int).Add(pow255, big.NewInt(int64(r.Intn(3)))) // 2^255 .. 2^255+2: one bit too many
	if r.Bool() {
		big256.Neg(big256)
	}
	for _, bad := range []string{big256.String(), "", "abc", "1.5", "1e5", "12 3", "0x10"} {
		if bad == "0x10" {
			continue // base prefixes: accepted by some big.Int parsers, harmless either way
		}
		if got, ok := sdk.NewIntFromString(bad); ok {
			rep.Violate("C18", "int-text/accepts-invalid", fmt.Sprintf("NewIntFromString(%q) accepted -> %v", bad, got))
		}
		var back sdk.Int
		if p := catch(func() {
			if err := back.UnmarshalAmino(bad); err == nil && bad != "" {
				rep.Violate("C18", "int-text/amino-accepts-invalid", fmt.Sprintf("Int.UnmarshalAmino(%q) accepted -> %v", bad, back))
			}
		}); p != nil {
			rep.Violate("C18", "int-text/amino-panic", fmt.Sprintf("Int.UnmarshalAmino(%q) panicked: %v", bad, p))
		}
	}
	// NewIntWithDecimal(n, dec) = n * 10^dec, or a panic when it does not fit / dec < 0
	n := []int64{0, 1, -1, math.MaxInt64, math.MinInt64, int64(r.U64()), int64(r.Intn(1000))}[r.Intn(7)]
	dec := []int{0, 1, 17, 18, 19, 57, 58, 59, 76, 77, -1, r.Intn(80)}[r.Intn(12)]
	var got sdk.Int
	p := catch(func() { got = sdk.NewIntWithDecimal(n, dec) })
	if dec < 0 {
		if p == nil {
			rep.Violate("C18", "int-no-panic/NewIntWithDecimal", fmt.Sprintf("NewIntWithDecimal(%d, %d) = %v: negative exponent but no panic", n, dec, got))
		}
	} else {
		want := new(big.Int).Mul(big.NewInt(n), pow10(dec))
		switch {
		case want.BitLen() > 255 && p == nil:
			rep.Violate("C18", "int-no-panic/NewIntWithDecimal", fmt.Sprintf("NewIntWithDecimal(%d, %d) = %v: out of range but no panic", n, dec, got))
		case want.BitLen() <= 255 && p != nil:
			rep.Violate("C18", "int-unexpected-panic/NewIntWithDecimal", fmt.Sprintf("NewIntWithDecimal(%d, %d) panicked: %v", n, dec, p))
		case want.BitLen() <= 255 && got.BigInt().Cmp(want) != 0:
			rep.Violate("C18", "int-wrong/NewIntWithDecimal", fmt.Sprintf("NewIntWithDecimal(%d, %d) = %v, exact %v", n, dec, got, want))
		}
	}
	// min / max / ModRaw
	b := GenBig(r, 255, true)
	if r.Chance(20) {
		b = new(big.Int).Set(a)
	}
	ib := sdk.NewIntFromBigInt(b)
	mn, mx := a, b
	if a.Cmp(b) > 0 {
		mn, mx = b, a
	}
	if sdk.MinInt(ia, ib).BigInt().Cmp(mn) != 0 || sdk.MaxInt(ia, ib).BigInt().Cmp(mx) != 0 {
		rep.Violate("C18", "int-wrong/MinMax", fmt.Sprintf("MinInt/MaxInt(%v, %v) = %v / %v", a, b, sdk.MinInt(ia, ib), sdk.MaxInt(ia, ib)))
	}
	raw := []int64{1, 2, 7, 1000000, math.MaxInt64, 1 + int64(r.U64()>>1)}[r.Intn(6)]
	var m sdk.Int
	if pp := catch(func() { m = ia.ModRaw(raw) }); pp != nil {
		rep.Violate("C18", "int-unexpected-panic/ModRaw", fmt.Sprintf("Int(%v).ModRaw(%d) panicked: %v", a, raw, pp))
	} else {
		d := new(big.Int).Sub(a, m.BigInt())
		if m.BigInt().Sign() < 0 || m.BigInt().Cmp(big.NewInt(raw)) >= 0 || new(big.Int).Rem(d, big.NewInt(raw)).Sign() != 0 {
			rep.Violate("C18", "int-wrong/ModRaw", fmt.Sprintf("Int(%v).ModRaw(%d) = %v", a, raw, m))
		}
	}
}

// ---- Uint -----------------------------------------------------------------------------------------------------------

// ubig reads a Uint through its decimal text (the type exposes no big.Int accessor).
func ubig(u sdk.Uint) *big.Int {
	x, _ := new(big.Int).SetString(u.String(), 10)
	if x == nil {
		return big.NewInt(-1)
	}
	return x
}

func extraUint(r *sim.Rand, rep Reporter) {
	rep.Count("c18.extra.uint", 1)
	a := GenBig(r, 256, false)
	if a.BitLen() > 256 {
		a = new(big.Int).Sub(pow256, one)
	}
	ua := sdk.NewUintFromBigInt(a)
	x := []uint64{0, 1, 2, math.MaxUint64, r.U64(), r.U64() >> uint(r.Intn(64))}[r.Intn(6)]
	bx := new(big.Int).SetUint64(x)
	type op struct {
		name string
		fn   func() sdk.Uint
		ref  func() *big.Int // nil: must panic
	}
	inU := func(v *big.Int) *big.Int {
		if v.Sign() < 0 || v.BitLen() > 256 {
			return nil
		}
		return v
	}
	ops := []op{
		{"AddUint64", func() sdk.Uint { return ua.AddUint64(x) }, func() *big.Int { return inU(new(big.Int).Add(a, bx)) }},
		{"SubUint64", func() sdk.Uint { return ua.SubUint64(x) }, func() *big.Int { return inU(new(big.Int).Sub(a, bx)) }},
		{"MulUint64", func() sdk.Uint { return ua.MulUint64(x) }, func() *big.Int { return inU(new(big.Int).Mul(a, bx)) }},
		{"QuoUint64", func() sdk.Uint { return ua.QuoUint64(x) }, func() *big.Int {
			if x == 0 {
				return nil
			}
			return new(big.Int).Quo(a, bx)
		}},
		{"NewUint", func() sdk.Uint { return sdk.NewUint(x) }, func() *big.Int { return bx }},
	}
	o := ops[r.Intn(len(ops))]
	var got sdk.Uint
	p := catch(func() { got = o.fn() })
	want := o.ref()
	switch {
	case want == nil && p == nil:
		rep.Violate("C18", "uint-no-panic/"+o.name, fmt.Sprintf("Uint(%v).%s(%d) = %v: out of range / undefined but no panic", a, o.name, x, got))
	case want == nil:
		rep.Count("c18.extra.uint_expected_panics", 1)
	case p != nil:
		rep.Violate("C18", "uint-unexpected-panic/"+o.name, fmt.Sprintf("Uint(%v).%s(%d) panicked: %v", a, o.name, x, p))
	case ubig(got).Cmp(want) != 0:
		rep.Violate("C18", "uint-wrong/"+o.name, fmt.Sprintf("Uint(%v).%s(%d) = %v, exact %v", a, o.name, x, got, want))
	}
	if ubig(ua).Cmp(a) != 0 {
		rep.Violate("C18", "operand-mutated/Uint."+o.name, fmt.Sprintf("operand %v reads %v afterwards", a, ua))
	}
	// text
	s := a.String()
	var pu sdk.Uint
	var perr error
	if pp := catch(func() { pu, perr = sdk.ParseUint(s) }); pp != nil || perr != nil || ubig(pu).Cmp(a) != 0 {
		rep.Violate("C18", "uint-text/ParseUint", fmt.Sprintf("ParseUint(%q) = %v, %v, panic %v", s, pu, perr, pp))
	}
	if ua.String() != s {
		rep.Violate("C18", "uint-text/String", fmt.Sprintf("Uint(%v).String() = %q", a, ua.String()))
	}
	over := new(big.Int).Add(pow256, big.NewInt(int64(r.Intn(2))))
	for _, bad := range []string{over.String(), "-1", "", "abc", "1.5"} {
		var u sdk.Uint
		var err error
		if pp := catch(func() { u, err = sdk.ParseUint(bad) }); pp == nil && err == nil {
			rep.Violate("C18", "uint-text/accepts-invalid", fmt.Sprintf("ParseUint(%q) accepted -> %v", bad, u))
		}
	}
	if (sdk.UintOverflow(over) != nil) != true || (sdk.UintOverflow(a) != nil) != false || (sdk.UintOverflow(big.NewInt(-1)) != nil) != true {
		rep.Violate("C18", "uint-wrong/UintOverflow", "UintOverflow misjudges 2^256, a 256-bit value or -1")
	}
	b := GenBig(r, 256, false)
	if b.BitLen() > 256 {
		b = new(big.Int)
	}
	ub := sdk.NewUintFromBigInt(b)
	mn, mx := a, b
	if a.Cmp(b) > 0 {
		mn, mx = b, a
	}
	if ubig(sdk.MinUint(ua, ub)).Cmp(mn) != 0 || ubig(sdk.MaxUint(ua, ub)).Cmp(mx) != 0 {
		rep.Violate("C18", "uint-wrong/MinMax", fmt.Sprintf("MinUint/MaxUint(%v, %v) wrong", a, b))
	}
}

// ---- Dec: text --------------------------------------------------------------------------------------------------

// decText renders a scaled value with exactly `decimals` fractional digits (the value must be representable that way).
func decText(v *big.Int, decimals int) string {
	abs := new(big.Int).Abs(v)
	s := abs.String()
	for len(s) < 19 {
		s = "0" + s
	}
	ip, fp := s[:len(s)-18], s[len(s)-18:]
	out := ip
	if decimals > 0 {
		out += "." + fp[:decimals]
	}
	if v.Sign() < 0 {
		out = "-" + out
	}
	return out
}

func extraDecText(r *sim.Rand, rep Reporter) {
	rep.Count("c18.extra.dec_text", 1)
	v := GenDecInt(r)
	if v.BitLen() > 300 {
		v = new(big.Int).Rsh(v, 20)
	}
	d := decOf(v)
	// String: sign, integer part, '.', exactly 18 decimals
	want := decText(v, 18)
	if d.String() != want {
		rep.Violate("C18", "dec-text/String", fmt.Sprintf("Dec(%v).String() = %q, canonical %q", v, d.String(), want))
	}
	if back, err := sdk.NewDecFromStr(d.String()); err != nil || back.Int.Cmp(v) != 0 {
		rep.Violate("C18", "dec-text/parse-of-String", fmt.Sprintf("NewDecFromStr(%q) = %v, %v", d.String(), back, err))
	}
	if txt, err := d.MarshalAmino(); err == nil {
		var back sdk.Dec
		if err := back.UnmarshalAmino(txt); err != nil || back.Int.Cmp(v) != 0 {
			rep.Violate("C18", "dec-text/amino-roundtrip", fmt.Sprintf("Dec(%v) amino text %q decodes to %v, %v", v, txt, back, err))
		}
	}
	// fewer decimals: values that are multiples of 10^(18-k), written with k decimals
	k := r.Intn(19)
	scale := pow10(18 - k)
	w := new(big.Int).Mul(new(big.Int).Quo(v, scale), scale)
	txt := decText(w, k)
	if back, err := sdk.NewDecFromStr(txt); err != nil || back.Int.Cmp(w) != 0 {
		rep.Violate("C18", "dec-text/NewDecFromStr", fmt.Sprintf("NewDecFromStr(%q) = %v, %v; exact %v", txt, back, err, decText(w, 18)))
	}
	// refused: too many decimals, malformed
	// ("--1" is read as 1 and re-encodes consistently, which the statement on decoding allows: not in the list)
	bad := []string{decText(v, 18) + "1", "", "-", "abc", "1.2.3", "1..2", "1e5", "1,5", " 1"}[r.Intn(9)]
	var back sdk.Dec
	var err error
	if p := catch(func() { back, err = sdk.NewDecFromStr(bad) }); p != nil {
		rep.Violate("C18", "dec-text/parse-panic", fmt.Sprintf("NewDecFromStr(%q) panicked: %v", bad, p))
	} else if err == nil {
		rep.Violate("C18", "dec-text/accepts-invalid", fmt.Sprintf("NewDecFromStr(%q) accepted -> %v", bad, back))
	}
	// IsInteger / TruncateDec
	rem := new(big.Int).Rem(v, prec)
	if d.IsInteger() != (rem.Sign() == 0) {
		rep.Violate("C18", "dec-wrong/IsInteger", fmt.Sprintf("Dec(%s).IsInteger() = %v", want, d.IsInteger()))
	}
	tr := new(big.Int).Mul(new(big.Int).Quo(v, prec), prec) // Quo truncates toward zero
	if got := d.TruncateDec(); got.Int.Cmp(tr) != 0 {
		rep.Violate("C18", "dec-wrong/TruncateDec", fmt.Sprintf("Dec(%s).TruncateDec() = %v", want, got))
	}
}

// ---- Dec: mixed-type operations and constructors ---------------------------------------------------------------------

func extraDecMixed(r *sim.Rand, rep Reporter) {
	rep.Count("c18.extra.dec_mixed", 1)
	v := GenDecInt(r)
	if v.BitLen() > 315 {
		v = new(big.Int).Rsh(v, 8)
	}
	d := decOf(v)
	i := GenBig(r, uint(1+r.Intn(255)), true)
	if r.Chance(30) {
		i = big.NewInt([]int64{0, 1, -1, 2, 10, math.MaxInt64, math.MinInt64}[r.Intn(7)])
	}
	ii := sdk.NewIntFromBigInt(i)
	inDec := func(x *big.Int) *big.Int {
		if x.BitLen() > 315 {
			return nil
		}
		return x
	}
	judge := func(name string, fn func() sdk.Dec, want *big.Int, arg string) {
		var got sdk.Dec
		p := catch(func() { got = fn() })
		switch {
		case want == nil && p == nil:
			rep.Violate("C18", "dec-no-panic/"+name, fmt.Sprintf("Dec(%s).%s(%s) = %v: out of range / undefined but no panic", decText(v, 18), name, arg, got))
		case want == nil:
		case p != nil:
			rep.Violate("C18", "dec-unexpected-panic/"+name, fmt.Sprintf("Dec(%s).%s(%s) panicked: %v", decText(v, 18), name, arg, p))
		case got.Int.Cmp(want) != 0:
			rep.Violate("C18", "dec-wrong/"+name, fmt.Sprintf("Dec(%s).%s(%s) = %v, exact %s", decText(v, 18), name, arg, got, decText(want, 18)))
		}
	}
	judge("MulInt", func() sdk.Dec { return d.MulInt(ii) }, inDec(new(big.Int).Mul(v, i)), i.String())
	if i.IsInt64() {
		x := i.Int64()
		judge("MulInt64", func() sdk.Dec { return d.MulInt64(x) }, inDec(new(big.Int).Mul(v, i)), i.String())
	}
	// QuoInt / QuoInt64: an integer divisor; the quotient at 18 decimals lies within one unit of the exact quotient
	// (the rounding mode of these two helpers is not fixed by the statement) and is exact when the division is
	quoJudge := func(name string, fn func() sdk.Dec) {
		var got sdk.Dec
		p := catch(func() { got = fn() })
		if i.Sign() == 0 {
			if p == nil {
				rep.Violate("C18", "dec-no-panic/"+name, fmt.Sprintf("Dec.%s(0) = %v: division by zero did not panic", name, got))
			}
			return
		}
		if p != nil {
			rep.Violate("C18", "dec-unexpected-panic/"+name, fmt.Sprintf("Dec(%s).%s(%v) panicked: %v", decText(v, 18), name, i, p))
			return
		}
		q, rm := new(big.Int).QuoRem(v, i, new(big.Int))
		diff := new(big.Int).Sub(got.Int, q)
		if (rm.Sign() == 0 && diff.Sign() != 0) || diff.CmpAbs(one) > 0 {
			rep.Violate("C18", "dec-wrong/"+name, fmt.Sprintf("Dec(%s).%s(%v) = %v, exact quotient %s (remainder %v)", decText(v, 18), name, i, got, decText(q, 18), rm))
		}
	}
	quoJudge("QuoInt", func() sdk.Dec { return d.QuoInt(ii) })
	if i.IsInt64() {
		x := i.Int64()
		quoJudge("QuoInt64", func() sdk.Dec { return d.QuoInt64(x) })
	}
	// constructors with scaling
	if i.BitLen() <= 255 {
		judge("NewDecFromInt", func() sdk.Dec { return sdk.NewDecFromInt(ii) }, inDec(new(big.Int).Mul(i, prec)), i.String())
		pr := int64(r.Intn(20))
		var want *big.Int
		if pr <= 18 {
			want = inDec(new(big.Int).Mul(i, pow10(int(18-pr))))
		}
		judge("NewDecFromIntWithPrec", func() sdk.Dec { return sdk.NewDecFromIntWithPrec(ii, pr) }, want, fmt.Sprintf("%v, %d", i, pr))
		judge("NewDecFromBigInt", func() sdk.Dec { return sdk.NewDecFromBigInt(new(big.Int).Set(i)) }, inDec(new(big.Int).Mul(i, prec)), i.String())
	}
	// min / max / slices
	w := GenDecInt(r)
	if w.BitLen() > 315 {
		w = new(big.Int).Rsh(w, 8)
	}
	if r.Chance(20) {
		w = new(big.Int).Set(v)
	}
	e := decOf(w)
	mn, mx := v, w
	if v.Cmp(w) > 0 {
		mn, mx = w, v
	}
	if sdk.MinDec(d, e).Int.Cmp(mn) != 0 || sdk.MaxDec(d, e).Int.Cmp(mx) != 0 {
		rep.Violate("C18", "dec-wrong/MinMax", fmt.Sprintf("MinDec/MaxDec(%s, %s) wrong", decText(v, 18), decText(w, 18)))
	}
	if sdk.DecsEqual([]sdk.Dec{d, e}, []sdk.Dec{d, e}) != true || sdk.DecsEqual([]sdk.Dec{d, e}, []sdk.Dec{e, d}) != (v.Cmp(w) == 0) || sdk.DecsEqual([]sdk.Dec{d}, []sdk.Dec{d, e}) {
		rep.Violate("C18", "dec-wrong/DecsEqual", "DecsEqual disagrees with element-wise equality")
	}
	if d.Int.Cmp(v) != 0 || ii.BigInt().Cmp(i) != 0 {
		rep.Violate("C18", "operand-mutated/Dec.mixed", "an operand changed")
	}
}

// ---- Coins: text ----------------------------------------------------------------------------------------------------

func extraCoinsText(r *sim.Rand, rep Reporter) {
	rep.Count("c18.extra.coins_text", 1)
	// a list of (amount, denom) terms in arbitrary order, possibly with duplicates / zero amounts / bad denominations
	n := r.Intn(5)
	type term struct {
		amt *big.Int
		den string
	}
	var ts []term
	valid := true
	seen := map[string]bool{}
	for i := 0; i < n; i++ {
		t := term{amt: new(big.Int).Abs(GenBig(r, uint(1+r.Intn(200)), false)), den: denoms[r.Intn(len(denoms))]}
		switch r.Intn(12) {
		case 0:
			t.amt = new(big.Int)
		case 1:
			t.den = []string{"Ab", "ab", "abcdefghijklmnopq", "a_b", "ABC"}[r.Intn(5)]
			valid = false
		}
		if t.amt.Sign() == 0 {
			valid = false // zero amounts are not part of a valid set
		}
		if seen[t.den] {
			valid = false
		}
		seen[t.den] = true
		ts = append(ts, t)
	}
	var parts []string
	for _, t := range ts {
		sep := []string{"", "", " "}[r.Intn(3)]
		parts = append(parts, t.amt.String()+sep+t.den)
	}
	txt := strings.Join(parts, []string{",", ", ", " ,"}[r.Intn(3)])
	var got sdk.Coins
	var err error
	if p := catch(func() { got, err = sdk.ParseCoins(txt) }); p != nil {
		rep.Violate("C18", "coins-text/parse-panic", fmt.Sprintf("ParseCoins(%q) panicked: %v", txt, p))
		return
	}
	switch {
	case valid && err != nil:
		rep.Violate("C18", "coins-text/rejects-valid", fmt.Sprintf("ParseCoins(%q) failed: %v", txt, err))
	case !valid && err == nil && len(ts) > 0:
		rep.Violate("C18", "coins-text/accepts-invalid", fmt.Sprintf("ParseCoins(%q) accepted a list with a duplicate / zero amount / bad denomination -> %s", txt, coinsStr(got)))
	case valid:
		m := cmodel{}
		for _, t := range ts {
			m[t.den] = t.amt
		}
		if !eqModel(got, m) || canonical(got, false) != "" {
			rep.Violate("C18", "coins-text/ParseCoins", fmt.Sprintf("ParseCoins(%q) = %s", txt, coinsStr(got)))
		}
		// the canonical text of the set parses back to it
		if back, err := sdk.ParseCoins(got.String()); err != nil || !eqModel(back, m) {
			rep.Violate("C18", "coins-text/String-roundtrip", fmt.Sprintf("ParseCoins(%q) (the String of %s) = %s, %v", got.String(), coinsStr(got), coinsStr(back), err))
		}
	}
	// a single coin
	if len(ts) > 0 {
		t := ts[0]
		okDen := true
		for _, bad := range []string{"Ab", "ab", "abcdefghijklmnopq", "a_b", "ABC"} {
			if t.den == bad {
				okDen = false
			}
		}
		var c sdk.Coin
		var err error
		s := t.amt.String() + t.den
		if p := catch(func() { c, err = sdk.ParseCoin(s) }); p != nil {
			rep.Violate("C18", "coins-text/parse-panic", fmt.Sprintf("ParseCoin(%q) panicked: %v", s, p))
		} else if okDen && (err != nil || c.Denom != t.den || c.Amount.BigInt().Cmp(t.amt) != 0) {
			rep.Violate("C18", "coins-text/ParseCoin", fmt.Sprintf("ParseCoin(%q) = %v, %v", s, c, err))
		} else if !okDen && err == nil {
			rep.Violate("C18", "coins-text/accepts-invalid", fmt.Sprintf("ParseCoin(%q) accepted a bad denomination -> %v", s, c))
		}
	}
}

// ---- Coins: set predicates ------------------------------------------------------------------------------------------------

func extraCoinsSets(r *sim.Rand, rep Reporter) {
	rep.Count("c18.extra.coins_sets", 1)
	A, ma := genCoins(r)
	B, mb := genCoins(r)
	sa, sb := coinsStr(A), coinsStr(B)
	// DenomsSubsetOf
	sub := true
	for d := range ma {
		if _, ok := mb[d]; !ok {
			sub = false
		}
	}
	if A.DenomsSubsetOf(B) != sub {
		rep.Violate("C18", "coins-compare/DenomsSubsetOf", fmt.Sprintf("%s.DenomsSubsetOf(%s) = %v", sa, sb, A.DenomsSubsetOf(B)))
	}
	if A.Empty() != (len(ma) == 0) || A.IsAllPositive() != (len(ma) > 0) || A.IsAnyNegative() {
		rep.Violate("C18", "coins-compare/Empty-IsAllPositive-IsAnyNegative", fmt.Sprintf("predicates of the valid set %s: Empty %v IsAllPositive %v IsAnyNegative %v", sa, A.Empty(), A.IsAllPositive(), A.IsAnyNegative()))
	}
	// Sort: a shuffled copy sorts back into the canonical order, content untouched
	sh := append(sdk.Coins{}, A...)
	for i := len(sh) - 1; i > 0; i-- {
		j := r.Intn(i + 1)
		sh[i], sh[j] = sh[j], sh[i]
	}
	sorted := sh.Sort()
	if coinsStr(sorted) != sa || !sort.SliceIsSorted(sorted, func(i, j int) bool { return sorted[i].Denom < sorted[j].Denom }) {
		rep.Violate("C18", "coins-sort", fmt.Sprintf("a shuffled copy of %s sorts to %s", sa, coinsStr(sorted)))
	}
	// single coins: IsGTE / IsLT / IsEqual panic across denominations, compare amounts within one
	if len(A) > 0 && len(B) > 0 {
		ca, cb := A[r.Intn(len(A))], B[r.Intn(len(B))]
		if r.Bool() {
			cb = sdk.NewCoin(ca.Denom, cb.Amount)
		}
		var gte, lt bool
		p1 := catch(func() { gte = ca.IsGTE(cb) })
		p2 := catch(func() { lt = ca.IsLT(cb) })
		if ca.Denom != cb.Denom {
			if p1 == nil || p2 == nil {
				rep.Violate("C18", "coin-compare/cross-denomination-no-panic", fmt.Sprintf("comparing %v with %v did not panic", ca, cb))
			}
		} else if p1 != nil || p2 != nil || gte != (ca.Amount.BigInt().Cmp(cb.Amount.BigInt()) >= 0) || lt != (ca.Amount.BigInt().Cmp(cb.Amount.BigInt()) < 0) {
			rep.Violate("C18", "coin-compare/IsGTE-IsLT", fmt.Sprintf("%v vs %v: IsGTE %v IsLT %v (panics %v %v)", ca, cb, gte, lt, p1, p2))
		}
	}
}

// ---- DecCoins: multiplication, division, intersection ----------------------------------------------------------------------

func extraDecCoins(r *sim.Rand, rep Reporter) {
	rep.Count("c18.extra.deccoins", 1)
	A, ma := genDecCoins(r)
	sa := dcStr(A)
	f := GenDecInt(r)
	if f.BitLen() > 120 {
		f = new(big.Int).Rsh(f, uint(f.BitLen()-120))
	}
	if r.Chance(25) {
		f = []*big.Int{new(big.Int), new(big.Int).Set(prec), big.NewInt(1), new(big.Int).Set(half), new(big.Int).Neg(prec)}[r.Intn(5)]
	}
	if f.Sign() < 0 {
		f = new(big.Int).Neg(f) // factors are fractions / rates: non-negative
	}
	df := decOf(f)
	type mop struct {
		name string
		fn   func() sdk.DecCoins
		each func(a *big.Int) *big.Int
		zero bool // zero factor must panic
	}
	ops := []mop{
		{"MulDec", func() sdk.DecCoins { return A.MulDec(df) }, func(a *big.Int) *big.Int { return divRound(new(big.Int).Mul(a, f), prec, "even") }, false},
		{"MulDecTruncate", func() sdk.DecCoins { return A.MulDecTruncate(df) }, func(a *big.Int) *big.Int { return divRound(new(big.Int).Mul(a, f), prec, "trunc") }, false},
		{"QuoDec", func() sdk.DecCoins { return A.QuoDec(df) }, func(a *big.Int) *big.Int { return divRound(new(big.Int).Mul(a, prec), f, "even") }, true},
		{"QuoDecTruncate", func() sdk.DecCoins { return A.QuoDecTruncate(df) }, func(a *big.Int) *big.Int { return divRound(new(big.Int).Mul(a, prec), f, "trunc") }, true},
	}
	o := ops[r.Intn(len(ops))]
	var got sdk.DecCoins
	p := catch(func() { got = o.fn() })
	switch {
	case o.zero && f.Sign() == 0:
		if p == nil {
			rep.Violate("C18", "deccoins-no-panic/"+o.name, fmt.Sprintf("%s.%s(0) = %s: division by zero did not panic", sa, o.name, dcStr(got)))
		}
	case p != nil:
		// overflow of a single amount is the only legitimate panic
		over := false
		for _, a := range ma {
			if o.zero {
				continue
			}
			if o.each(a).BitLen() > 315 {
				over = true
			}
		}
		if !over {
			rep.Violate("C18", "deccoins-unexpected-panic/"+o.name, fmt.Sprintf("%s.%s(%s) panicked: %v", sa, o.name, decText(f, 18), p))
		}
	default:
		want := dcmodel{}
		known := true
		for d, a := range ma {
			w := o.each(a)
			if o.name == "QuoDec" {
				// Dec.Quo truncates at 36 digits before rounding (known finding dec-quo-36-digit-truncation): only judge
				// amounts whose quotient is not within one unit of a tie
				q36 := new(big.Int).Quo(new(big.Int).Mul(new(big.Int).Mul(a, prec), prec), f)
				chopped := new(big.Int).Rem(q36, prec)
				if chopped.Cmp(half) == 0 {
					known = false
				}
			}
			if w.Sign() != 0 {
				want[d] = w
			}
		}
		if known && (!dcEq(got, want) || dcCanonical(got, false) != "") {
			rep.Violate("C18", "deccoins-wrong/"+o.name, fmt.Sprintf("%s.%s(%s) = %s", sa, o.name, decText(f, 18), dcStr(got)))
		}
	}
	// Intersect: per-denomination minimum, zero entries dropped
	B, mb := genDecCoins(r)
	if r.Chance(30) {
		mb = dcmodel{}
		for d, a := range ma {
			switch r.Intn(3) {
			case 0:
				mb[d] = new(big.Int).Set(a)
			case 1:
				mb[d] = new(big.Int).Add(a, one)
			}
		}
		B = toDecCoins(mb)
	}
	wantI := dcmodel{}
	for d, a := range ma {
		if b, ok := mb[d]; ok {
			m := a
			if b.Cmp(a) < 0 {
				m = b
			}
			if m.Sign() != 0 {
				wantI[d] = m
			}
		}
	}
	var gi sdk.DecCoins
	if p := catch(func() { gi = A.Intersect(B) }); p != nil {
		rep.Violate("C18", "deccoins-unexpected-panic/Intersect", fmt.Sprintf("%s.Intersect(%s) panicked: %v", sa, dcStr(B), p))
	} else if !dcEq(gi, wantI) || dcCanonical(gi, false) != "" {
		rep.Violate("C18", "deccoins-wrong/Intersect", fmt.Sprintf("%s.Intersect(%s) = %s", sa, dcStr(B), dcStr(gi)))
	}
	if dcStr(A) != sa {
		rep.Violate("C18", "operand-mutated/DecCoins", fmt.Sprintf("operand %s reads %s afterwards", sa, dcStr(A)))
	}
}
