// Package numchk: C18 — Int / Uint / Dec / Coins against exact big.Int / big.Rat arithmetic.
package numchk

import (
	"fmt"
	"math"
	"math/big"
	"sort"

	"verif/harness/sim"

	sdk "github.com/pokt-network/posmint/types"
)

type Reporter interface {
	Violate(prop, sig, msg string)
	Count(k string, n int64)
}

var (
	one    = big.NewInt(1)
	two    = big.NewInt(2)
	prec   = new(big.Int).Exp(big.NewInt(10), big.NewInt(18), nil)
	prec2  = new(big.Int).Mul(prec, prec)
	half   = new(big.Int).Quo(prec, two)
	pow255 = new(big.Int).Lsh(one, 255)
	pow256 = new(big.Int).Lsh(one, 256)
	pow315 = new(big.Int).Lsh(one, 315)
)

func catch(fn func()) (p interface{}) {
	defer func() {
		if r := recover(); r != nil {
			p = r
		}
	}()
	fn()
	return nil
}

// GenBig draws a boundary-biased integer with |x| < 2^bits (or one step beyond when over is true).
func GenBig(r *sim.Rand, bits uint, signed bool) *big.Int {
	var x *big.Int
	top := new(big.Int).Lsh(one, bits)
	switch r.Intn(12) {
	case 0:
		x = big.NewInt(0)
	case 1:
		x = big.NewInt(1)
	case 2:
		x = new(big.Int).Sub(top, one) // 2^bits - 1
	case 3:
		x = new(big.Int).Sub(top, big.NewInt(int64(1+r.Intn(3))))
	case 4:
		x = new(big.Int).Exp(big.NewInt(10), big.NewInt(int64(r.Intn(77))), nil)
		if x.Cmp(top) >= 0 {
			x = big.NewInt(10)
		}
	case 5:
		x = new(big.Int).Lsh(one, uint(r.Intn(int(bits))))
		if r.Bool() {
			x.Sub(x, one)
		}
	case 6:
		x = big.NewInt(int64(r.Intn(1000)))
	case 7:
		x = new(big.Int).Rsh(top, 1) // 2^(bits-1)
		x.Add(x, big.NewInt(int64(r.Intn(3)-1)))
	default:
		n := 1 + r.Intn(int(bits))
		x = new(big.Int).SetBytes(r.Bytes((n + 7) / 8))
		x.Rsh(x, uint(len(x.Bytes())*8-n)%8)
		if x.Cmp(top) >= 0 {
			x.Mod(x, top)
		}
	}
	if signed && r.Bool() {
		x = x.Neg(x)
	}
	return x
}

func snap(xs ...*big.Int) []string {
	out := make([]string, len(xs))
	for i, x := range xs {
		out[i] = x.String()
	}
	return out
}

// ---- Int -------------------------------------------------------------------------------------------

func CheckInt(r *sim.Rand, rep Reporter) {
	a, b := GenBig(r, 255, true), GenBig(r, 255, true)
	if r.Chance(4) {
		// pairs around the machine-word bounds (where a word-sized fast path would go wrong)
		w := []int64{math.MinInt64, math.MinInt64 + 1, math.MaxInt64, math.MaxInt64 - 1, -1, 1, 2, -2, 1 << 31, -(1 << 31), 1 << 32, (1 << 32) - 1, 3037000499, 3037000500, -3037000500}
		a, b = big.NewInt(w[r.Intn(len(w))]), big.NewInt(w[r.Intn(len(w))])
		rep.Count("c18.int.word_boundary_pairs", 1)
	}
	ia, ib := sdk.NewIntFromBigInt(a), sdk.NewIntFromBigInt(b)
	before := snap(ia.BigInt(), ib.BigInt())
	type bin struct {
		name string
		fn   func() sdk.Int
		ref  func() *big.Int // nil => must panic
	}
	inRange := func(x *big.Int) *big.Int {
		if x.BitLen() > 255 {
			return nil
		}
		return x
	}
	ops := []bin{
		{"Add", func() sdk.Int { return ia.Add(ib) }, func() *big.Int { return inRange(new(big.Int).Add(a, b)) }},
		{"Sub", func() sdk.Int { return ia.Sub(ib) }, func() *big.Int { return inRange(new(big.Int).Sub(a, b)) }},
		{"Mul", func() sdk.Int { return ia.Mul(ib) }, func() *big.Int { return inRange(new(big.Int).Mul(a, b)) }},
		{"Quo", func() sdk.Int { return ia.Quo(ib) }, func() *big.Int {
			if b.Sign() == 0 {
				return nil
			}
			return new(big.Int).Quo(a, b)
		}},
		{"Neg", func() sdk.Int { return ia.Neg() }, func() *big.Int { return new(big.Int).Neg(a) }},
	}
	// the int64-argument variants, with the int64 bounds among the arguments
	raw := []int64{math.MinInt64, math.MinInt64 + 1, -1, 0, 1, math.MaxInt64, int64(r.U64()), int64(r.U64() >> uint(r.Intn(63)))}[r.Intn(8)]
	braw := big.NewInt(raw)
	ops = append(ops,
		bin{"AddRaw", func() sdk.Int { return ia.AddRaw(raw) }, func() *big.Int { return inRange(new(big.Int).Add(a, braw)) }},
		bin{"SubRaw", func() sdk.Int { return ia.SubRaw(raw) }, func() *big.Int { return inRange(new(big.Int).Sub(a, braw)) }},
		bin{"MulRaw", func() sdk.Int { return ia.MulRaw(raw) }, func() *big.Int { return inRange(new(big.Int).Mul(a, braw)) }},
		bin{"QuoRaw", func() sdk.Int { return ia.QuoRaw(raw) }, func() *big.Int {
			if raw == 0 {
				return nil
			}
			return new(big.Int).Quo(a, braw)
		}},
	)
	o := ops[r.Intn(len(ops))]
	argB := b // the second operand as shown in messages
	if len(o.name) > 3 && o.name[3:] == "Raw" {
		argB = braw
	}
	var got sdk.Int
	p := catch(func() { got = o.fn() })
	want := o.ref()
	rep.Count("c18.int."+o.name, 1)
	switch {
	case want == nil && p == nil:
		rep.Violate("C18", "int-no-panic/"+o.name, fmt.Sprintf("Int.%s(%v, %v) = %v: out of range / undefined but did not panic", o.name, a, argB, got))
	case want == nil:
		rep.Count("c18.int.expected_panics", 1)
	case p != nil:
		rep.Violate("C18", "int-unexpected-panic/"+o.name, fmt.Sprintf("Int.%s(%v, %v) panicked (%v); exact result %v is representable", o.name, a, argB, p, want))
	case got.BigInt().Cmp(want) != 0:
		rep.Violate("C18", "int-wrong/"+o.name, fmt.Sprintf("Int.%s(%v, %v) = %v, exact %v", o.name, a, argB, got, want))
	}
	if o.name == "Quo" || r.Chance(10) {
		// Mod: non-negative remainder smaller than |b|, congruent to a
		if b.Sign() != 0 {
			var m sdk.Int
			if pp := catch(func() { m = ia.Mod(ib) }); pp != nil {
				rep.Violate("C18", "int-unexpected-panic/Mod", fmt.Sprintf("Int.Mod(%v, %v) panicked: %v", a, b, pp))
			} else {
				d := new(big.Int).Sub(a, m.BigInt())
				if m.BigInt().Sign() < 0 || m.BigInt().CmpAbs(b) >= 0 || new(big.Int).Rem(d, b).Sign() != 0 {
					rep.Violate("C18", "int-wrong/Mod", fmt.Sprintf("Int.Mod(%v, %v) = %v", a, b, m))
				}
			}
		}
	}
	// comparisons
	if ia.GT(ib) != (a.Cmp(b) > 0) || ia.LT(ib) != (a.Cmp(b) < 0) || ia.Equal(ib) != (a.Cmp(b) == 0) || ia.GTE(ib) != (a.Cmp(b) >= 0) || ia.LTE(ib) != (a.Cmp(b) <= 0) {
		rep.Violate("C18", "int-compare", fmt.Sprintf("Int comparisons of %v and %v disagree with big.Int", a, b))
	}
	after := snap(ia.BigInt(), ib.BigInt())
	if before[0] != after[0] || before[1] != after[1] || a.String() != before[0] || b.String() != before[1] {
		rep.Violate("C18", "operand-mutated/Int."+o.name, fmt.Sprintf("operands changed by Int.%s: %v -> %v", o.name, before, after))
	}
	// conversions: Int64 is defined exactly on the int64 range and panics outside
	if r.Chance(10) {
		x := new(big.Int).Add(new(big.Int).Lsh(one, 63), big.NewInt(int64(r.Intn(5)-2))) // 2^63-2 .. 2^63+2
		if r.Bool() {
			x.Neg(x)
		}
		if r.Chance(30) {
			x = a
		}
		ix := sdk.NewIntFromBigInt(x)
		fits := x.IsInt64()
		if ix.IsInt64() != fits {
			rep.Violate("C18", "int-wrong/IsInt64", fmt.Sprintf("Int(%v).IsInt64() = %v", x, ix.IsInt64()))
		}
		var v int64
		pp := catch(func() { v = ix.Int64() })
		if fits && (pp != nil || v != x.Int64()) {
			rep.Violate("C18", "int-wrong/Int64", fmt.Sprintf("Int(%v).Int64() = %d (panic %v)", x, v, pp))
		} else if !fits && pp == nil {
			rep.Violate("C18", "int-no-panic/Int64", fmt.Sprintf("Int(%v).Int64() = %d: does not fit an int64 but did not panic", x, v))
		}
		if ix.IsZero() != (x.Sign() == 0) || ix.Sign() != x.Sign() || ix.IsNegative() != (x.Sign() < 0) || ix.IsPositive() != (x.Sign() > 0) {
			rep.Violate("C18", "int-wrong/sign-predicates", fmt.Sprintf("sign predicates of Int(%v) disagree with big.Int", x))
		}
		if d := ix.ToDec(); d.Int.Cmp(new(big.Int).Mul(x, prec)) != 0 {
			rep.Violate("C18", "int-wrong/ToDec", fmt.Sprintf("Int(%v).ToDec() = %v", x, d))
		}
	}
	// constructor bound
	if r.Chance(5) {
		x := new(big.Int).Add(pow255, big.NewInt(int64(r.Intn(3)-1))) // 2^255-1, 2^255, 2^255+1
		if r.Bool() {
			x.Neg(x)
		}
		pp := catch(func() { sdk.NewIntFromBigInt(x) })
		if (x.BitLen() > 255) != (pp != nil) {
			rep.Violate("C18", "int-constructor-bound", fmt.Sprintf("NewIntFromBigInt(%v): bitlen %d, panicked=%v", x, x.BitLen(), pp != nil))
		}
	}
}

// ---- Uint ------------------------------------------------------------------------------------------

func CheckUint(r *sim.Rand, rep Reporter) {
	a, b := GenBig(r, 256, false), GenBig(r, 256, false)
	ua, ub := sdk.NewUintFromBigInt(a), sdk.NewUintFromBigInt(b)
	inRange := func(x *big.Int) *big.Int {
		if x.Sign() < 0 || x.BitLen() > 256 {
			return nil
		}
		return x
	}
	type bin struct {
		name string
		fn   func() sdk.Uint
		ref  func() *big.Int
	}
	ops := []bin{
		{"Add", func() sdk.Uint { return ua.Add(ub) }, func() *big.Int { return inRange(new(big.Int).Add(a, b)) }},
		{"Sub", func() sdk.Uint { return ua.Sub(ub) }, func() *big.Int { return inRange(new(big.Int).Sub(a, b)) }},
		{"Mul", func() sdk.Uint { return ua.Mul(ub) }, func() *big.Int { return inRange(new(big.Int).Mul(a, b)) }},
		{"Quo", func() sdk.Uint { return ua.Quo(ub) }, func() *big.Int {
			if b.Sign() == 0 {
				return nil
			}
			return new(big.Int).Quo(a, b)
		}},
	}
	o := ops[r.Intn(len(ops))]
	var got sdk.Uint
	p := catch(func() { got = o.fn() })
	want := o.ref()
	rep.Count("c18.uint."+o.name, 1)
	switch {
	case want == nil && p == nil:
		rep.Violate("C18", "uint-no-panic/"+o.name, fmt.Sprintf("Uint.%s(%v, %v) = %v: out of range / undefined but did not panic", o.name, a, b, got))
	case want == nil:
		rep.Count("c18.uint.expected_panics", 1)
	case p != nil:
		rep.Violate("C18", "uint-unexpected-panic/"+o.name, fmt.Sprintf("Uint.%s(%v, %v) panicked (%v); exact result %v is representable", o.name, a, b, p, want))
	case got.String() != want.String():
		rep.Violate("C18", "uint-wrong/"+o.name, fmt.Sprintf("Uint.%s(%v, %v) = %v, exact %v", o.name, a, b, got, want))
	}
	if ua.GT(ub) != (a.Cmp(b) > 0) || ua.LT(ub) != (a.Cmp(b) < 0) || ua.Equal(ub) != (a.Cmp(b) == 0) || ua.GTE(ub) != (a.Cmp(b) >= 0) || ua.LTE(ub) != (a.Cmp(b) <= 0) {
		rep.Violate("C18", "uint-compare", fmt.Sprintf("Uint comparisons of %v and %v disagree", a, b))
	}
	if ua.String() != a.String() || ub.String() != b.String() {
		rep.Violate("C18", "operand-mutated/Uint."+o.name, "operands changed")
	}
}

// ---- Dec -------------------------------------------------------------------------------------------

// roundHalfEven(n/d), truncate(n/d), ceil(n/d) on exact integers (d != 0).
func divRound(n, d *big.Int, mode string) *big.Int {
	neg := (n.Sign() < 0) != (d.Sign() < 0)
	na, da := new(big.Int).Abs(n), new(big.Int).Abs(d)
	q, rm := new(big.Int).QuoRem(na, da, new(big.Int))
	switch mode {
	case "trunc":
	case "ceil": // toward +inf
		if rm.Sign() != 0 && !neg {
			q.Add(q, one)
		}
	case "even":
		c := new(big.Int).Mul(rm, two).Cmp(da)
		if c > 0 || (c == 0 && q.Bit(0) == 1) {
			q.Add(q, one)
		}
	}
	if neg {
		q.Neg(q)
	}
	return q
}

func decOf(x *big.Int) sdk.Dec { return sdk.NewDecFromBigIntWithPrec(new(big.Int).Set(x), 18) }

// GenDecInt: scaled integer of a Dec (value * 10^18), boundary-biased, including rounding ties.
func GenDecInt(r *sim.Rand) *big.Int {
	switch r.Intn(11) {
	case 10:
		// whole parts next to the int64 / int32 / 2^255 bounds with fractions around one half: where a conversion
		// to a machine integer must still refuse after rounding
		w := new(big.Int).Lsh(big.NewInt(1), []uint{63, 63, 63, 31, 64, 255}[r.Intn(6)])
		w.Add(w, big.NewInt(int64(r.Intn(3)-1)))
		x := new(big.Int).Mul(w, prec)
		fr := []*big.Int{new(big.Int).Neg(half), new(big.Int).Sub(big.NewInt(1), half), new(big.Int).Sub(big.NewInt(0), big.NewInt(1)), big.NewInt(0), big.NewInt(1), new(big.Int).Sub(half, big.NewInt(1)), half, new(big.Int).Add(half, big.NewInt(1))}[r.Intn(8)]
		x.Add(x, fr)
		if r.Bool() {
			x.Neg(x)
		}
		return x
	case 0:
		return GenBig(r, 315, true)
	case 1: // k + 1/2 at the 18th digit after a multiplication by something simple
		k := big.NewInt(int64(r.Intn(1000)))
		x := new(big.Int).Mul(k, prec)
		x.Add(x, half)
		if r.Bool() {
			x.Neg(x)
		}
		return x
	case 2:
		return new(big.Int).Mul(big.NewInt(int64(r.Intn(2000)-1000)), prec) // integers
	case 3:
		return big.NewInt(int64(r.Intn(2000) - 1000)) // dust
	case 4:
		x := new(big.Int).Exp(big.NewInt(10), big.NewInt(int64(r.Intn(60))), nil)
		if r.Bool() {
			x.Neg(x)
		}
		return x
	default:
		return GenBig(r, uint(20+r.Intn(200)), true)
	}
}

// tiePair constructs (N, D) such that N*10^36/D truncates to exactly K*10^18 + 5*10^17 (or + 0) with a non-zero remainder:
// the inputs on which a quotient truncated at 36 digits and then rounded differs from rounding the exact rational.
func tiePair(r *sim.Rand, wantZero bool) (*big.Int, *big.Int, bool) {
	return tiePairMode(r, wantZero, false)
}

// tiePairMode with below: the 36-digit truncation ends in ...499999999999999999 (one unit below the tie) with a non-zero
// remainder: a quotient that is off by one unit at the 36th digit (floor instead of truncation for negative operands)
// lands exactly on the tie and is rounded the other way when K is odd.
func tiePairMode(r *sim.Rand, wantZero, below bool) (*big.Int, *big.Int, bool) {
	if below {
		wantZero = false
	}
	if r.Chance(20) && !wantZero && !below {
		return big.NewInt(1), new(big.Int).Sub(new(big.Int).Mul(two, prec), one), true // 1e-18 / 1.999999999999999999
	}
	if r.Chance(20) && wantZero {
		return big.NewInt(3), new(big.Int).Sub(new(big.Int).Mul(big.NewInt(3), prec), one), true
	}
	for try := 0; try < 20; try++ {
		D := new(big.Int).Add(GenBig(r, uint(125+r.Intn(60)), false), prec2)
		K := big.NewInt(int64(r.Intn(50)))
		T := new(big.Int).Mul(K, prec)
		if below {
			T.Add(T, half)
			T.Sub(T, one)
		} else if !wantZero {
			T.Add(T, half)
		} else if K.Sign() == 0 {
			T.Add(T, prec)
		}
		T.Mul(T, D)
		N := new(big.Int).Quo(T, prec2)
		N.Add(N, one)
		lhs := new(big.Int).Mul(N, prec2)
		if lhs.Cmp(T) > 0 && lhs.Cmp(new(big.Int).Add(T, D)) < 0 {
			return N, D, true
		}
	}
	return nil, nil, false
}

func CheckDec(r *sim.Rand, rep Reporter) {
	a, b := GenDecInt(r), GenDecInt(r)
	directed := false
	if r.Chance(8) {
		below := r.Chance(35)
		if n, d, ok := tiePairMode(r, r.Bool(), below); ok {
			a, b, directed = n, d, true
			if r.Chance(30) || (below && r.Bool()) {
				a = new(big.Int).Neg(a)
			}
			if below && r.Chance(30) {
				b = new(big.Int).Neg(b)
			}
		}
	}
	if !directed && r.Chance(5) {
		// products that are exact ties at 18 decimals: a*b = (2K+1) * 5*10^17 with b a divisor of 5*10^17
		x, y := r.Intn(18), r.Intn(19)
		d := new(big.Int).Mul(new(big.Int).Exp(two, big.NewInt(int64(x)), nil), new(big.Int).Exp(big.NewInt(5), big.NewInt(int64(y)), nil))
		b = new(big.Int).Quo(half, d)
		a = new(big.Int).Mul(big.NewInt(int64(2*r.Intn(40)+1)), d)
		if r.Chance(40) {
			a.Neg(a)
		}
		if r.Chance(30) {
			b.Neg(b)
		}
		if r.Bool() {
			a, b = b, a
		}
		rep.Count("c18.dec.directed_mul_ties", 1)
	}
	if a.BitLen() > 315 {
		a = new(big.Int).Rsh(a, 8)
	}
	if b.BitLen() > 315 {
		b = new(big.Int).Rsh(b, 8)
	}
	da, db := decOf(a), decOf(b)
	before := snap(da.Int, db.Int)
	inRange := func(x *big.Int) *big.Int {
		if x == nil || x.BitLen() > 315 {
			return nil
		}
		return x
	}
	type bin struct {
		name string
		fn   func() *big.Int
		ref  func() *big.Int
	}
	quo := func(mode string) func() *big.Int {
		return func() *big.Int {
			if b.Sign() == 0 {
				return nil
			}
			return inRange(divRound(new(big.Int).Mul(a, prec), b, mode))
		}
	}
	ops := []bin{
		{"Add", func() *big.Int { return da.Add(db).Int }, func() *big.Int { return inRange(new(big.Int).Add(a, b)) }},
		{"Sub", func() *big.Int { return da.Sub(db).Int }, func() *big.Int { return inRange(new(big.Int).Sub(a, b)) }},
		{"Mul", func() *big.Int { return da.Mul(db).Int }, func() *big.Int { return inRange(divRound(new(big.Int).Mul(a, b), prec, "even")) }},
		{"MulTruncate", func() *big.Int { return da.MulTruncate(db).Int }, func() *big.Int { return inRange(divRound(new(big.Int).Mul(a, b), prec, "trunc")) }},
		{"Quo", func() *big.Int { return da.Quo(db).Int }, quo("even")},
		{"QuoTruncate", func() *big.Int { return da.QuoTruncate(db).Int }, quo("trunc")},
		{"QuoRoundUp", func() *big.Int { return da.QuoRoundUp(db).Int }, quo("ceil")},
		{"RoundInt", func() *big.Int { return da.RoundInt().BigInt() }, func() *big.Int {
			x := divRound(a, prec, "even")
			if x.BitLen() > 255 {
				return nil
			}
			return x
		}},
		{"TruncateInt", func() *big.Int { return da.TruncateInt().BigInt() }, func() *big.Int {
			x := divRound(a, prec, "trunc")
			if x.BitLen() > 255 {
				return nil
			}
			return x
		}},
		{"Ceil", func() *big.Int { return da.Ceil().Int }, func() *big.Int {
			return inRange(new(big.Int).Mul(divRound(a, prec, "ceil"), prec))
		}},
		{"RoundInt64", func() *big.Int { return big.NewInt(da.RoundInt64()) }, func() *big.Int {
			x := divRound(a, prec, "even")
			if !x.IsInt64() {
				return nil
			}
			return x
		}},
		{"TruncateInt64", func() *big.Int { return big.NewInt(da.TruncateInt64()) }, func() *big.Int {
			x := divRound(a, prec, "trunc")
			if !x.IsInt64() {
				return nil
			}
			return x
		}},
	}
	var o bin
	if directed {
		o = ops[4+r.Intn(3)]
		rep.Count("c18.dec.directed_36th_digit_cases", 1)
	} else {
		o = ops[r.Intn(len(ops))]
	}
	var got *big.Int
	p := catch(func() { got = o.fn() })
	want := o.ref()
	rep.Count("c18.dec."+o.name, 1)
	arg := fmt.Sprintf("%s(%v, %v)", o.name, da, db)
	switch {
	case want == nil && p == nil:
		rep.Violate("C18", "dec-no-panic/"+o.name, fmt.Sprintf("Dec.%s = %v: out of range / undefined but did not panic", arg, got))
	case want == nil:
		rep.Count("c18.dec.expected_panics", 1)
	case p != nil:
		rep.Violate("C18", "dec-unexpected-panic/"+o.name, fmt.Sprintf("Dec.%s panicked (%v); exact result %v (x10^-18) is representable", arg, p, want))
	case got.Cmp(want) != 0:
		sig := "dec-wrong/" + o.name
		if (o.name == "Quo" || o.name == "QuoRoundUp") && b.Sign() != 0 {
			// classify: quotient truncated at 36 digits, non-zero remainder beyond, chopped digits exactly tie / zero
			num := new(big.Int).Mul(new(big.Int).Abs(a), prec2)
			q36, rem := new(big.Int).QuoRem(num, new(big.Int).Abs(b), new(big.Int))
			chopped := new(big.Int).Mod(q36, prec)
			if rem.Sign() != 0 && ((o.name == "Quo" && chopped.Cmp(half) == 0) || (o.name == "QuoRoundUp" && chopped.Sign() == 0)) {
				sig = "dec-quo-36-digit-truncation/" + o.name
			}
		}
		rep.Violate("C18", sig, fmt.Sprintf("Dec.%s = %v, exact rational rounded as stated gives %v", arg, decOf(got), decOf(want)))
	}
	after := snap(da.Int, db.Int)
	if before[0] != after[0] || before[1] != after[1] {
		rep.Violate("C18", "operand-mutated/Dec."+o.name, fmt.Sprintf("operands changed by Dec.%s: %v -> %v", o.name, before, after))
	}
	if da.GT(db) != (a.Cmp(b) > 0) || da.LT(db) != (a.Cmp(b) < 0) || da.Equal(db) != (a.Cmp(b) == 0) {
		rep.Violate("C18", "dec-compare", "Dec comparison disagrees")
	}
}

// ---- Coins -------------------------------------------------------------------------------------------

// fourteen denominations: sets of up to fourteen coins (lookups in long sets take other code paths than in short ones)
var denoms = []string{"aaa", "abc", "abd", "upokt", "zzz", "mmm1", "bbb", "ccc", "ddd", "eee9", "fff", "upokz", "yyy", "a00"}

type cmodel map[string]*big.Int

func genCoins(r *sim.Rand) (sdk.Coins, cmodel) {
	m := cmodel{}
	n := r.Intn(7)
	if r.Chance(30) {
		n = r.Intn(2*len(denoms) + 1) // long sets (drawing with repetition: up to all fourteen)
	}
	for i := 0; i < n; i++ {
		d := denoms[r.Intn(len(denoms))]
		var amt *big.Int
		switch r.Intn(5) {
		case 0:
			amt = big.NewInt(1)
		case 1:
			amt = big.NewInt(int64(1 + r.Intn(5)))
		case 2:
			amt = new(big.Int).Sub(pow255, one)
		default:
			amt = new(big.Int).Add(GenBig(r, uint(8+r.Intn(100)), false), one)
		}
		m[d] = amt
	}
	return toCoins(m), m
}

func toCoins(m cmodel) sdk.Coins {
	var ds []string
	for d, a := range m {
		if a.Sign() != 0 {
			ds = append(ds, d)
		}
	}
	sort.Strings(ds)
	out := sdk.Coins{}
	for _, d := range ds {
		out = append(out, sdk.Coin{Denom: d, Amount: sdk.NewIntFromBigInt(new(big.Int).Set(m[d]))})
	}
	return out
}

func canonical(c sdk.Coins, allowNeg bool) string {
	for i, x := range c {
		if x.Amount.IsZero() {
			return fmt.Sprintf("zero amount for %s", x.Denom)
		}
		if !allowNeg && x.Amount.IsNegative() {
			return fmt.Sprintf("negative amount for %s", x.Denom)
		}
		if i > 0 && c[i-1].Denom >= x.Denom {
			return fmt.Sprintf("not strictly sorted at %s,%s", c[i-1].Denom, x.Denom)
		}
	}
	return ""
}

func eqModel(c sdk.Coins, m cmodel) bool {
	n := 0
	for _, a := range m {
		if a.Sign() != 0 {
			n++
		}
	}
	if len(c) != n {
		return false
	}
	for _, x := range c {
		a, ok := m[x.Denom]
		if !ok || a.Cmp(x.Amount.BigInt()) != 0 {
			return false
		}
	}
	return true
}

func coinsStr(c sdk.Coins) string {
	s := "["
	for i, x := range c {
		if i > 0 {
			s += ","
		}
		s += x.Amount.String() + x.Denom
	}
	return s + "]"
}

func CheckCoins(r *sim.Rand, rep Reporter) {
	A, ma := genCoins(r)
	B, mb := genCoins(r)
	if r.Chance(15) { // B derived from A: shared denoms, amounts one unit either side
		mb = cmodel{}
		for d, a := range ma {
			switch r.Intn(4) {
			case 0:
				mb[d] = new(big.Int).Set(a)
			case 1:
				mb[d] = new(big.Int).Add(a, one)
				if mb[d].BitLen() > 255 {
					mb[d] = new(big.Int).Set(a)
				}
			case 2:
				if a.Cmp(one) > 0 {
					mb[d] = new(big.Int).Sub(a, one)
				}
			}
		}
		B = toCoins(mb)
	}
	sa, sb := coinsStr(A), coinsStr(B)
	rep.Count("c18.coins.cases", 1)
	if !A.IsValid() || !B.IsValid() {
		rep.Violate("C18", "coins-generator", "generated coins invalid: "+sa+" "+sb)
		return
	}
	get := func(m cmodel, d string) *big.Int {
		if a, ok := m[d]; ok {
			return a
		}
		return new(big.Int)
	}
	all := map[string]bool{}
	for d := range ma {
		all[d] = true
	}
	for d := range mb {
		all[d] = true
	}
	// Add
	sum := cmodel{}
	overflow := false
	for d := range all {
		sum[d] = new(big.Int).Add(get(ma, d), get(mb, d))
		if sum[d].BitLen() > 255 {
			overflow = true
		}
	}
	var got sdk.Coins
	p := catch(func() { got = A.Add(B) })
	switch {
	case overflow && p == nil:
		rep.Violate("C18", "coins-add-overflow-no-panic", fmt.Sprintf("%s.Add(%s) overflows 255 bits but returned %s", sa, sb, coinsStr(got)))
	case overflow:
		rep.Count("c18.coins.expected_panics", 1)
	case p != nil:
		rep.Violate("C18", "coins-add-panic", fmt.Sprintf("%s.Add(%s) panicked: %v", sa, sb, p))
	default:
		if c := canonical(got, false); c != "" || !eqModel(got, sum) || (len(got) > 0 && !got.IsValid()) {
			rep.Violate("C18", "coins-add-wrong", fmt.Sprintf("%s.Add(%s) = %s (%s)", sa, sb, coinsStr(got), c))
		}
		// Add and Sub are inverse
		var back sdk.Coins
		if pp := catch(func() { back = got.Sub(B) }); pp != nil {
			rep.Violate("C18", "coins-add-sub-inverse", fmt.Sprintf("(%s+%s)-%s panicked: %v", sa, sb, sb, pp))
		} else if !eqModel(back, ma) || canonical(back, false) != "" {
			rep.Violate("C18", "coins-add-sub-inverse", fmt.Sprintf("(%s+%s)-%s = %s", sa, sb, sb, coinsStr(back)))
		}
	}
	// SafeSub / Sub
	diff := cmodel{}
	neg := false
	for d := range all {
		diff[d] = new(big.Int).Sub(get(ma, d), get(mb, d))
		if diff[d].Sign() < 0 {
			neg = true
		}
	}
	var sd sdk.Coins
	var flag bool
	if pp := catch(func() { sd, flag = A.SafeSub(B) }); pp != nil {
		rep.Violate("C18", "coins-safesub-panic", fmt.Sprintf("%s.SafeSub(%s) panicked: %v", sa, sb, pp))
	} else {
		if flag != neg {
			rep.Violate("C18", "coins-safesub-flag", fmt.Sprintf("%s.SafeSub(%s) reports negative=%v, exact %v", sa, sb, flag, neg))
		}
		if !eqModel(sd, diff) || canonical(sd, true) != "" {
			rep.Violate("C18", "coins-safesub-wrong", fmt.Sprintf("%s.SafeSub(%s) = %s", sa, sb, coinsStr(sd)))
		}
	}
	pp := catch(func() { got = A.Sub(B) })
	if neg != (pp != nil) {
		rep.Violate("C18", "coins-sub-panic-rule", fmt.Sprintf("%s.Sub(%s): negative result %v, panicked %v", sa, sb, neg, pp != nil))
	} else if !neg && (!eqModel(got, diff) || canonical(got, false) != "") {
		rep.Violate("C18", "coins-sub-wrong", fmt.Sprintf("%s.Sub(%s) = %s", sa, sb, coinsStr(got)))
	}
	// results stay what they were: a result must not share storage with an operand or with another result
	if r.Chance(25) {
		A2 := make(sdk.Coins, len(A), len(A)+1+r.Intn(6)) // an operand with spare capacity (what successive Adds produce)
		copy(A2, A)
		mk := func(d string) sdk.Coins { return sdk.Coins{sdk.NewCoin(d, sdk.NewInt(1+int64(r.Intn(9))))} }
		// denominations sorting after / before / between everything in A
		c1, c2 := mk("zzy"), mk("zzz")
		if r.Chance(30) {
			c1, c2 = mk("aa0"), mk("aa1")
		}
		var r1, r2 sdk.Coins
		var s1, s2 string
		if pp := catch(func() {
			r1 = A2.Add(c1)
			s1 = coinsStr(r1)
			r2 = A2.Add(c2)
			s2 = coinsStr(r2)
			_ = r1.Add(c2)
			_ = A2.Add(c1).Add(c2)
		}); pp == nil {
			rep.Count("c18.coins.aliasing_probes", 1)
			if coinsStr(r1) != s1 || coinsStr(r2) != s2 {
				rep.Violate("C18", "coins-result-changed-later", fmt.Sprintf("%s.Add(%s) returned %s; after a second Add on the same operand it reads %s", sa, coinsStr(c1), s1, coinsStr(r1)))
			}
			if coinsStr(A2) != sa {
				rep.Violate("C18", "operand-mutated/Coins.Add", fmt.Sprintf("operand %s reads %s after Add", sa, coinsStr(A2)))
			}
		}
	}
	// comparisons: per-denomination definitions
	subset := func(x, y cmodel) bool {
		for d := range x {
			if _, ok := y[d]; !ok {
				return false
			}
		}
		return true
	}
	allGT := func(x, y cmodel) bool {
		if len(x) == 0 {
			return false
		}
		if len(y) == 0 {
			return true
		}
		if !subset(y, x) {
			return false
		}
		for d, b := range y {
			if get(x, d).Cmp(b) <= 0 {
				return false
			}
		}
		return true
	}
	allGTE := func(x, y cmodel) bool {
		for d, b := range y {
			if get(x, d).Cmp(b) < 0 {
				return false
			}
		}
		return true
	}
	anyGT, anyGTE := false, false
	for d, a := range ma {
		if b, ok := mb[d]; ok {
			if a.Cmp(b) > 0 {
				anyGT = true
			}
			if a.Cmp(b) >= 0 {
				anyGTE = true
			}
		}
	}
	chk := func(name string, got, want bool) {
		if got != want {
			rep.Violate("C18", "coins-compare/"+name, fmt.Sprintf("%s.%s(%s) = %v, per-denomination definition gives %v", sa, name, sb, got, want))
		}
	}
	chk("IsAllGT", A.IsAllGT(B), allGT(ma, mb))
	chk("IsAllGTE", A.IsAllGTE(B), allGTE(ma, mb))
	chk("IsAllLT", A.IsAllLT(B), allGT(mb, ma))
	chk("IsAllLTE", A.IsAllLTE(B), allGTE(mb, ma))
	chk("IsAnyGT", A.IsAnyGT(B), anyGT)
	chk("IsAnyGTE", A.IsAnyGTE(B), anyGTE)
	// IsEqual: same-length sets with different denominations panic (pinned by TestEqualCoins) — tolerated
	same := len(ma) == len(mb) && subset(ma, mb)
	if same {
		for d, a := range ma {
			if a.Cmp(mb[d]) != 0 {
				same = false
			}
		}
	}
	var eq bool
	if pe := catch(func() { eq = A.IsEqual(B) }); pe != nil {
		if !(len(A) == len(B) && !subset(ma, mb)) {
			rep.Violate("C18", "coins-isequal-panic", fmt.Sprintf("%s.IsEqual(%s) panicked: %v", sa, sb, pe))
		} else {
			rep.Count("c18.coins.isequal_pinned_panic", 1)
		}
	} else if eq != same {
		rep.Violate("C18", "coins-compare/IsEqual", fmt.Sprintf("%s.IsEqual(%s) = %v", sa, sb, eq))
	}
	for _, d := range denoms {
		if A.AmountOf(d).BigInt().Cmp(get(ma, d)) != 0 {
			rep.Violate("C18", "coins-amountof", fmt.Sprintf("%s.AmountOf(%s) = %v", sa, d, A.AmountOf(d)))
		}
	}
	if coinsStr(A) != sa || coinsStr(B) != sb {
		rep.Violate("C18", "operand-mutated/Coins", fmt.Sprintf("operands changed: %s -> %s, %s -> %s", sa, coinsStr(A), sb, coinsStr(B)))
	}
	// NewCoins: sorts, drops zeroes, panics on duplicates
	if r.Chance(20) {
		var raw []sdk.Coin
		mm := cmodel{}
		dup := false
		for i := 0; i < r.Intn(5); i++ {
			d := denoms[r.Intn(len(denoms))]
			amt := int64(r.Intn(3))
			raw = append(raw, sdk.NewInt64Coin(d, amt))
			if amt == 0 {
				continue // zero coins are dropped before duplicates are looked for
			}
			if _, ok := mm[d]; ok {
				dup = true
			}
			mm[d] = big.NewInt(amt)
		}
		var nc sdk.Coins
		pn := catch(func() { nc = sdk.NewCoins(raw...) })
		if dup != (pn != nil) {
			rep.Violate("C18", "newcoins-dup-rule", fmt.Sprintf("NewCoins(%v): duplicate=%v panicked=%v", raw, dup, pn != nil))
		} else if !dup && (canonical(nc, false) != "" || !eqModel(nc, mm)) {
			rep.Violate("C18", "newcoins-not-canonical", fmt.Sprintf("NewCoins(%v) = %s", raw, coinsStr(nc)))
		}
	}
	// staking power conversion
	if r.Chance(10) {
		t := GenBig(r, 200, false)
		want := new(big.Int).Quo(t, big.NewInt(1000000))
		if want.IsInt64() {
			if g := sdk.TokensToConsensusPower(sdk.NewIntFromBigInt(t)); g != want.Int64() {
				rep.Violate("C18", "tokens-to-power", fmt.Sprintf("TokensToConsensusPower(%v) = %d, floor gives %v", t, g, want))
			}
		}
	}
}

// ---- DecCoins ---------------------------------------------------------------------------------------

type dcmodel map[string]*big.Int // denom -> scaled (x10^18) amount

func genDecCoins(r *sim.Rand) (sdk.DecCoins, dcmodel) {
	m := dcmodel{}
	n := r.Intn(len(denoms) + 1)
	for i := 0; i < n; i++ {
		d := denoms[r.Intn(len(denoms))]
		var amt *big.Int
		switch r.Intn(4) {
		case 0:
			amt = big.NewInt(1) // 10^-18
		case 1:
			amt = new(big.Int).Mul(big.NewInt(int64(1+r.Intn(9))), prec)
		default:
			amt = new(big.Int).Add(GenBig(r, uint(8+r.Intn(120)), false), one)
		}
		m[d] = amt
	}
	return toDecCoins(m), m
}

func toDecCoins(m dcmodel) sdk.DecCoins {
	var ds []string
	for d, a := range m {
		if a.Sign() != 0 {
			ds = append(ds, d)
		}
	}
	sort.Strings(ds)
	out := sdk.DecCoins{}
	for _, d := range ds {
		out = append(out, sdk.DecCoin{Denom: d, Amount: decOf(m[d])})
	}
	return out
}

func dcStr(c sdk.DecCoins) string {
	s := "["
	for i, x := range c {
		if i > 0 {
			s += ","
		}
		s += x.Amount.String() + x.Denom
	}
	return s + "]"
}

func dcCanonical(c sdk.DecCoins, allowNeg bool) string {
	for i, x := range c {
		if x.Amount.IsZero() {
			return "zero amount for " + x.Denom
		}
		if !allowNeg && x.Amount.IsNegative() {
			return "negative amount for " + x.Denom
		}
		if i > 0 && c[i-1].Denom >= x.Denom {
			return "not strictly sorted at " + c[i-1].Denom + "," + x.Denom
		}
	}
	return ""
}

func dcEq(c sdk.DecCoins, m dcmodel) bool {
	n := 0
	for _, a := range m {
		if a.Sign() != 0 {
			n++
		}
	}
	if len(c) != n {
		return false
	}
	for _, x := range c {
		a, ok := m[x.Denom]
		if !ok || a.Cmp(x.Amount.Int) != 0 {
			return false
		}
	}
	return true
}

func CheckDecCoins(r *sim.Rand, rep Reporter) {
	A, ma := genDecCoins(r)
	B, mb := genDecCoins(r)
	sa, sb := dcStr(A), dcStr(B)
	rep.Count("c18.deccoins.cases", 1)
	get := func(m dcmodel, d string) *big.Int {
		if a, ok := m[d]; ok {
			return a
		}
		return new(big.Int)
	}
	all := map[string]bool{}
	for d := range ma {
		all[d] = true
	}
	for d := range mb {
		all[d] = true
	}
	sum, diff := dcmodel{}, dcmodel{}
	neg := false
	for d := range all {
		sum[d] = new(big.Int).Add(get(ma, d), get(mb, d))
		diff[d] = new(big.Int).Sub(get(ma, d), get(mb, d))
		if diff[d].Sign() < 0 {
			neg = true
		}
	}
	var got sdk.DecCoins
	if p := catch(func() { got = A.Add(B) }); p != nil {
		rep.Violate("C18", "deccoins-add-panic", fmt.Sprintf("%s.Add(%s) panicked: %v", sa, sb, p))
	} else {
		if c := dcCanonical(got, false); c != "" || !dcEq(got, sum) {
			rep.Violate("C18", "deccoins-add-wrong", fmt.Sprintf("DecCoins %s.Add(%s) = %s (%s)", sa, sb, dcStr(got), c))
		} else {
			var back sdk.DecCoins
			if pp := catch(func() { back = got.Sub(B) }); pp != nil || !dcEq(back, ma) || dcCanonical(back, false) != "" {
				rep.Violate("C18", "deccoins-add-sub-inverse", fmt.Sprintf("DecCoins (%s+%s)-%s = %s (panic %v)", sa, sb, sb, dcStr(back), pp))
			}
		}
	}
	var sd sdk.DecCoins
	var flag bool
	if pp := catch(func() { sd, flag = A.SafeSub(B) }); pp != nil {
		rep.Violate("C18", "deccoins-safesub-panic", fmt.Sprintf("%s.SafeSub(%s) panicked: %v", sa, sb, pp))
	} else if flag != neg || !dcEq(sd, diff) || dcCanonical(sd, true) != "" {
		rep.Violate("C18", "deccoins-safesub-wrong", fmt.Sprintf("DecCoins %s.SafeSub(%s) = %s, negative=%v (exact negative %v)", sa, sb, dcStr(sd), flag, neg))
	}
	pp := catch(func() { got = A.Sub(B) })
	if neg != (pp != nil) {
		rep.Violate("C18", "deccoins-sub-panic-rule", fmt.Sprintf("DecCoins %s.Sub(%s): negative result %v, panicked %v", sa, sb, neg, pp != nil))
	} else if !neg && (!dcEq(got, diff) || dcCanonical(got, false) != "") {
		rep.Violate("C18", "deccoins-sub-wrong", fmt.Sprintf("DecCoins %s.Sub(%s) = %s", sa, sb, dcStr(got)))
	}
	for _, d := range denoms {
		if A.AmountOf(d).Int.Cmp(get(ma, d)) != 0 {
			rep.Violate("C18", "deccoins-amountof", fmt.Sprintf("DecCoins %s.AmountOf(%s) = %v", sa, d, A.AmountOf(d)))
		}
	}
	// truncation: whole part + change == original, change < 1 per denomination
	var tc sdk.Coins
	var ch sdk.DecCoins
	if p := catch(func() { tc, ch = A.TruncateDecimal() }); p != nil {
		rep.Violate("C18", "deccoins-truncate-panic", fmt.Sprintf("%s.TruncateDecimal panicked: %v", sa, p))
	} else {
		for d, a := range ma {
			w := new(big.Int).Quo(a, prec)
			c := new(big.Int).Rem(a, prec)
			if tc.AmountOf(d).BigInt().Cmp(w) != 0 || ch.AmountOf(d).Int.Cmp(c) != 0 {
				rep.Violate("C18", "deccoins-truncate-wrong", fmt.Sprintf("%s.TruncateDecimal: %s -> whole %v change %v", sa, d, tc.AmountOf(d), ch.AmountOf(d)))
			}
		}
	}
	if dcStr(A) != sa || dcStr(B) != sb {
		rep.Violate("C18", "operand-mutated/DecCoins", fmt.Sprintf("operands changed: %s -> %s, %s -> %s", sa, dcStr(A), sb, dcStr(B)))
	}
}
