package codecchk

import (
	"bytes"
	"encoding/json"
	"fmt"
	"reflect"

	sdk "github.com/pokt-network/posmint/types"
)

// jsonDoc builds a small JSON document (objects with unsorted keys, nesting, arrays, strings with escapes, numbers as
// strings like the wire types, bare small numbers, true/false/null) with random insignificant white space.
func (g *Gen) jsonDoc(depth int) string {
	r := g.R
	ws := func() string { return []string{"", "", "", " ", "\n", "\t "}[r.Intn(6)] }
	switch k := r.Intn(8); {
	case k < 3 && depth < 3:
		n := r.Intn(4)
		s := "{" + ws()
		used := map[string]bool{}
		first := true
		for i := 0; i < n; i++ {
			key := []string{"b", "a", "zz", "a1", "", "é", "type", "value", "A"}[r.Intn(9)]
			if used[key] {
				continue
			}
			used[key] = true
			if !first {
				s += "," + ws()
			}
			first = false
			s += fmt.Sprintf("%q", key) + ws() + ":" + ws() + g.jsonDoc(depth+1)
		}
		return s + ws() + "}"
	case k < 4 && depth < 3:
		n := r.Intn(4)
		s := "["
		for i := 0; i < n; i++ {
			if i > 0 {
				s += "," + ws()
			}
			s += g.jsonDoc(depth + 1)
		}
		return s + "]"
	case k == 4:
		return []string{"true", "false", "null", "0", "-1", "17", "1.5"}[r.Intn(7)]
	default:
		return []string{`"1"`, `"12345678901234567890123"`, `""`, `"a\"b"`, `"é"`, `"}"`, `"]"`, `"x y"`}[r.Intn(8)]
	}
}

// SortJSON: valid documents are canonicalised (sorted keys, no white space, same content, idempotent); anything that is
// not exactly one JSON value is refused. The reference for validity is encoding/json's own validator.
func SortJSON(g *Gen, rep Reporter) {
	r := g.R
	doc := g.jsonDoc(0)
	if !json.Valid([]byte(doc)) {
		rep.Violate("C20", "harness-json-generator", fmt.Sprintf("generator produced invalid JSON %q", doc))
		return
	}
	in := doc
	mutated := "valid"
	if r.Chance(55) {
		switch r.Intn(9) {
		case 0:
			in, mutated = doc+"}", "trailing-brace"
		case 1:
			in, mutated = doc+"]", "trailing-bracket"
		case 2:
			in, mutated = doc+" }", "trailing-space-brace"
		case 3:
			in, mutated = doc+"\n]x", "trailing-bracket-garbage"
		case 4:
			in, mutated = doc+doc, "two-documents"
		case 5:
			in, mutated = doc+" "+[]string{"1", "null", `"a"`, ","}[r.Intn(4)], "trailing-value"
		case 6:
			if len(doc) > 1 {
				in, mutated = doc[:r.Intn(len(doc)-1)+1], "truncated"
			}
		case 7:
			in, mutated = doc+" \n\t", "trailing-whitespace"
		case 8:
			b := []byte(doc)
			b[r.Intn(len(b))] = []byte{'}', ']', ',', ':', '"', '{', '['}[r.Intn(7)]
			in, mutated = string(b), "byte-replaced"
		}
	}
	valid := json.Valid([]byte(in))
	rep.Count("c20.sortjson.cases", 1)
	if !valid {
		rep.Count("c20.sortjson.invalid_inputs", 1)
	}
	var out []byte
	var err error
	if p := catch(func() { out, err = sdk.SortJSON([]byte(in)) }); p != nil {
		rep.Violate("C20", "sortjson-panic", fmt.Sprintf("SortJSON(%q) panicked: %v", in, p))
		return
	}
	switch {
	case !valid && err == nil:
		rep.Violate("C20", "sortjson-accepts-invalid-json/"+mutated, fmt.Sprintf("SortJSON accepted %q, which is not one JSON value, and returned %q: two different byte strings canonicalise to the same sign bytes", in, out))
		return
	case valid && err != nil:
		rep.Violate("C20", "sortjson-rejects-valid-json", fmt.Sprintf("SortJSON rejected the valid document %q: %v", in, err))
		return
	case !valid:
		return
	}
	if !json.Valid(out) {
		rep.Violate("C20", "sortjson-output-invalid", fmt.Sprintf("SortJSON(%q) = %q is not valid JSON", in, out))
		return
	}
	var a, b interface{}
	_ = json.Unmarshal([]byte(in), &a)
	_ = json.Unmarshal(out, &b)
	if !reflect.DeepEqual(a, b) {
		rep.Violate("C20", "sortjson-changes-content", fmt.Sprintf("SortJSON(%q) = %q holds different content", in, out))
	}
	again, err := sdk.SortJSON(out)
	if err != nil || !bytes.Equal(again, out) {
		rep.Violate("C20", "sortjson-not-idempotent", fmt.Sprintf("SortJSON(%q) = %q but sorting that again gives %q (%v)", in, out, again, err))
	}
	// two spellings of the same content (white space, key order) canonicalise identically
	var canon bytes.Buffer
	if json.Compact(&canon, []byte(in)) == nil {
		o2, err2 := sdk.SortJSON(canon.Bytes())
		if err2 != nil || !bytes.Equal(o2, out) {
			rep.Violate("C20", "sortjson-whitespace-sensitive", fmt.Sprintf("SortJSON(%q) = %q, without white space %q (%v)", in, out, o2, err2))
		}
	}
	if !keysSorted(out) {
		rep.Violate("C20", "sortjson-keys-not-sorted", fmt.Sprintf("SortJSON(%q) = %q has unsorted object keys", in, out))
	}
}

// keysSorted walks the token stream and checks that the keys of every object ascend.
func keysSorted(doc []byte) bool {
	dec := json.NewDecoder(bytes.NewReader(doc))
	type frame struct {
		obj   bool
		key   bool
		last  string
		first bool
	}
	var st []frame
	for {
		t, err := dec.Token()
		if err != nil {
			return true
		}
		top := func() *frame {
			if len(st) == 0 {
				return nil
			}
			return &st[len(st)-1]
		}
		if d, ok := t.(json.Delim); ok {
			switch d {
			case '{':
				if f := top(); f != nil && f.obj {
					f.key = true
				}
				st = append(st, frame{obj: true, key: true, first: true})
			case '[':
				if f := top(); f != nil && f.obj {
					f.key = true
				}
				st = append(st, frame{})
			default:
				st = st[:len(st)-1]
			}
			continue
		}
		f := top()
		if f == nil || !f.obj {
			continue
		}
		if f.key {
			k, _ := t.(string)
			if !f.first && k <= f.last {
				return false
			}
			f.first, f.last, f.key = false, k, false
		} else {
			f.key = true
		}
	}
}

// HostileJSON: the JSON decoders of the wire and storage types return an error on documents whose values have the
// wrong shape (a number where a string is expected, a one-character string, null, an object ...) and never panic.
func HostileJSON(cdc amino, g *Gen, rep Reporter) {
	r := g.R
	name, val, dst := g.Value()
	var bz []byte
	var err error
	if p := catch(func() { bz, err = cdc.MarshalJSON(val) }); p != nil || err != nil {
		return
	}
	// positions of value tokens: strings (after a colon or inside arrays) and numbers
	type span struct{ a, b int }
	var spans []span
	for i := 0; i < len(bz); i++ {
		if bz[i] == '"' {
			j := i + 1
			for j < len(bz) && bz[j] != '"' {
				if bz[j] == '\\' {
					j++
				}
				j++
			}
			if j < len(bz) {
				// a value, not a key: the next non-space byte is not ':'
				k := j + 1
				for k < len(bz) && (bz[k] == ' ' || bz[k] == '\n') {
					k++
				}
				if k >= len(bz) || bz[k] != ':' {
					spans = append(spans, span{i, j + 1})
				}
			}
			i = j
		}
	}
	if len(spans) == 0 {
		return
	}
	sp := spans[r.Intn(len(spans))]
	// hexadecimal tokens (keys, addresses): the same text one byte longer / shorter is another byte string; if it is
	// accepted it must come back as what was given, not silently cut or padded
	if tok := string(bz[sp.a+1 : sp.b-1]); len(tok) >= 40 && isHex(tok) && r.Chance(50) {
		alt := []string{tok + "ab", tok[:len(tok)-2], tok + "a", tok[2:]}[r.Intn(4)]
		mut := append(append(append([]byte{}, bz[:sp.a]...), []byte(`"`+alt+`"`)...), bz[sp.b:]...)
		d := dst()
		rep.Count("c20.hostile.json_hex_length_variants", 1)
		if p := catch(func() { err = cdc.UnmarshalJSON(mut, d) }); p != nil {
			rep.Violate("C20", "json-decoder-panic/"+name, fmt.Sprintf("decoding a %s from %s panicked: %v", name, mut, p))
		} else if err == nil {
			var back []byte
			if pp := catch(func() { back, err = cdc.MarshalJSON(reflect.ValueOf(d).Elem().Interface()) }); pp == nil && err == nil && !bytes.Contains(bytes.ToLower(back), bytes.ToLower([]byte(alt))) {
				rep.Violate("C20", "json-decoder-alters-hex-value/"+name, fmt.Sprintf("a %s whose hexadecimal value %s was given as %s (other length) was accepted and re-encodes as %s: the value was cut or padded silently", name, tok, alt, back))
			}
		}
		return
	}
	repl := []string{`7`, `"7"`, `""`, `null`, `"zz"`, `{}`, `[]`, `true`, `-1`, `1e400`, `"0"`, `"x"`, `0`, `"00"`, `[1]`, `{"a":1}`, `"\u0000"`}[r.Intn(17)]
	mut := append(append(append([]byte{}, bz[:sp.a]...), repl...), bz[sp.b:]...)
	rep.Count("c20.hostile.json_documents", 1)
	d := dst()
	if p := catch(func() { err = cdc.UnmarshalJSON(mut, d) }); p != nil {
		rep.Violate("C20", "json-decoder-panic/"+name, fmt.Sprintf("decoding a %s from %s (value %s replaced by %s) panicked: %v", name, mut, bz[sp.a:sp.b], repl, p))
		return
	}
	if err != nil {
		rep.Count("c20.hostile.json_rejected", 1)
	}
}

type amino interface {
	MarshalJSON(o interface{}) ([]byte, error)
	UnmarshalJSON(bz []byte, ptr interface{}) error
}

func isHex(s string) bool {
	for _, c := range s {
		if !(c >= '0' && c <= '9' || c >= 'a' && c <= 'f' || c >= 'A' && c <= 'F') {
			return false
		}
	}
	return true
}
