// Package codecchk: C20 — encodings round-trip, sign bytes are canonical, malformed input is refused.
package codecchk

import (
	"bytes"
	"encoding/binary"
	"fmt"
	"math/big"
	"reflect"
	"time"
	"unsafe"

	"verif/harness/sim"

	"github.com/pokt-network/posmint/codec"
	"github.com/pokt-network/posmint/crypto"
	sdk "github.com/pokt-network/posmint/types"
	authTypes "github.com/pokt-network/posmint/x/auth/types"
	govTypes "github.com/pokt-network/posmint/x/gov/types"
	posTypes "github.com/pokt-network/posmint/x/pos/types"
)

type Reporter interface {
	Violate(prop, sig, msg string)
	Count(k string, n int64)
}

func catch(fn func()) (p interface{}) {
	defer func() {
		if r := recover(); r != nil {
			p = r
		}
	}()
	fn()
	return nil
}

var bigIntT = reflect.TypeOf(big.Int{})
var timeT = reflect.TypeOf(time.Time{})

// DeepEq: structural equality with nil == empty (slices, maps, strings), big.Int by value, time by instant.
func DeepEq(a, b reflect.Value) (bool, string) {
	// a value held in an interface-typed variable is compared as the value it holds
	for a.IsValid() && a.Kind() == reflect.Interface && !a.IsNil() {
		a = a.Elem()
	}
	for b.IsValid() && b.Kind() == reflect.Interface && !b.IsNil() {
		b = b.Elem()
	}
	if !a.IsValid() || !b.IsValid() {
		if a.IsValid() != b.IsValid() {
			// nil interface vs something: equal only if the something is an empty/nil value
			v := a
			if !v.IsValid() {
				v = b
			}
			if isEmpty(v) {
				return true, ""
			}
			return false, "one side is absent"
		}
		return true, ""
	}
	if a.Type() != b.Type() {
		return false, fmt.Sprintf("types %s vs %s", a.Type(), b.Type())
	}
	if a.Kind() == reflect.Ptr && a.Type().Elem() == bigIntT {
		// *big.Int (possibly in an unexported field): compare by value through the pointer
		var x, y *big.Int
		if !a.IsNil() {
			x = (*big.Int)(unsafe.Pointer(a.Pointer()))
		}
		if !b.IsNil() {
			y = (*big.Int)(unsafe.Pointer(b.Pointer()))
		}
		if x == nil || y == nil {
			if (x == nil || x.Sign() == 0) && (y == nil || y.Sign() == 0) {
				return true, ""
			}
			return false, "nil big.Int vs non-zero"
		}
		if x.Cmp(y) != 0 {
			return false, fmt.Sprintf("big.Int %s vs %s", x.String(), y.String())
		}
		return true, ""
	}
	switch a.Type() {
	case timeT:
		if !a.CanInterface() {
			return true, ""
		}
		x, y := a.Interface().(time.Time), b.Interface().(time.Time)
		if !x.Equal(y) {
			return false, fmt.Sprintf("time %v vs %v", x, y)
		}
		return true, ""
	}
	switch a.Kind() {
	case reflect.Ptr, reflect.Interface:
		if a.IsNil() || b.IsNil() {
			if a.IsNil() && b.IsNil() {
				return true, ""
			}
			v := a
			if v.IsNil() {
				v = b
			}
			if isEmpty(v.Elem()) {
				return true, ""
			}
			return false, "nil vs non-nil"
		}
		return DeepEq(a.Elem(), b.Elem())
	case reflect.Struct:
		for i := 0; i < a.NumField(); i++ {
			if ok, why := DeepEq(a.Field(i), b.Field(i)); !ok {
				return false, a.Type().Field(i).Name + ": " + why
			}
		}
		return true, ""
	case reflect.Slice, reflect.Array:
		if a.Len() != b.Len() {
			return false, fmt.Sprintf("length %d vs %d", a.Len(), b.Len())
		}
		for i := 0; i < a.Len(); i++ {
			if ok, why := DeepEq(a.Index(i), b.Index(i)); !ok {
				return false, fmt.Sprintf("[%d]: %s", i, why)
			}
		}
		return true, ""
	case reflect.Map:
		if a.Len() != b.Len() {
			return false, "map length"
		}
		for _, k := range a.MapKeys() {
			if ok, why := DeepEq(a.MapIndex(k), b.MapIndex(k)); !ok {
				return false, fmt.Sprintf("[%v]: %s", k, why)
			}
		}
		return true, ""
	case reflect.String:
		return a.String() == b.String(), "string"
	case reflect.Bool:
		return a.Bool() == b.Bool(), "bool"
	case reflect.Int, reflect.Int8, reflect.Int16, reflect.Int32, reflect.Int64:
		return a.Int() == b.Int(), fmt.Sprintf("int %d vs %d", a.Int(), b.Int())
	case reflect.Uint, reflect.Uint8, reflect.Uint16, reflect.Uint32, reflect.Uint64:
		return a.Uint() == b.Uint(), fmt.Sprintf("uint %d vs %d", a.Uint(), b.Uint())
	}
	if !a.CanInterface() {
		return true, ""
	}
	return reflect.DeepEqual(a.Interface(), b.Interface()), "deep"
}

func isEmpty(v reflect.Value) bool {
	if !v.IsValid() {
		return true
	}
	switch v.Kind() {
	case reflect.Slice, reflect.Map, reflect.String:
		return v.Len() == 0
	case reflect.Ptr, reflect.Interface:
		return v.IsNil() || isEmpty(v.Elem())
	}
	return false
}

// ---- generators -------------------------------------------------------------------------------------

type Gen struct {
	R    *sim.Rand
	Seed uint64
}

func (g *Gen) addr() sdk.Address {
	switch g.R.Intn(10) {
	case 0:
		return nil
	case 1:
		return make(sdk.Address, 20) // the all-zero address is an address like any other
	case 2:
		a := make(sdk.Address, 20)
		a[g.R.Intn(20)] = byte(1 + g.R.Intn(255)) // a single non-zero byte
		return a
	default:
		return sdk.Address(g.R.Bytes(24)[:20])
	}
}

func (g *Gen) intv() sdk.Int {
	r := g.R
	switch r.Intn(7) {
	case 0:
		return sdk.ZeroInt()
	case 1:
		return sdk.NewInt(1)
	case 2:
		return sdk.NewInt(-int64(r.Intn(1000)))
	case 3:
		x := new(big.Int).Lsh(big.NewInt(1), 255)
		x.Sub(x, big.NewInt(1))
		if r.Bool() {
			x.Neg(x)
		}
		return sdk.NewIntFromBigInt(x)
	case 4:
		return sdk.NewInt(int64(r.U64() >> 1))
	default:
		x := new(big.Int).SetBytes(r.Bytes(1 + r.Intn(31)))
		return sdk.NewIntFromBigInt(x)
	}
}

func (g *Gen) dec() sdk.Dec {
	r := g.R
	switch r.Intn(5) {
	case 0:
		return sdk.ZeroDec()
	case 1:
		return sdk.SmallestDec()
	case 2:
		return sdk.NewDecWithPrec(int64(r.Intn(1000000)), int64(r.Intn(19)))
	case 3:
		x := new(big.Int).SetBytes(r.Bytes(1 + r.Intn(38)))
		if r.Bool() {
			x.Neg(x)
		}
		return sdk.NewDecFromBigIntWithPrec(x, 18)
	default:
		return sdk.NewDec(int64(r.Intn(100000)) - 50000)
	}
}

func (g *Gen) pub() crypto.PublicKey {
	r := g.R
	switch r.Intn(5) {
	case 0:
		return sim.NewSecpActor(g.Seed, r.Intn(50)).Pub
	case 1:
		return sim.NewMultiActor("m", sim.NewEdActor(g.Seed, r.Intn(50)), sim.NewSecpActor(g.Seed, r.Intn(50))).Pub
	case 2:
		in := sim.NewMultiActor("i", sim.NewEdActor(g.Seed, r.Intn(50)), sim.NewEdActor(g.Seed, 50+r.Intn(50)))
		return sim.NewMultiActor("m", sim.NewSecpActor(g.Seed, r.Intn(50)), in).Pub
	default:
		return sim.NewEdActor(g.Seed, r.Intn(50)).Pub
	}
}

func (g *Gen) coins() sdk.Coins {
	r := g.R
	switch r.Intn(5) {
	case 0:
		return nil
	case 1:
		return sdk.Coins{}
	case 2:
		return sdk.NewCoins(sdk.NewInt64Coin("upokt", int64(1+r.Intn(100000))), sdk.NewInt64Coin("abc", int64(1+r.Intn(100))))
	default:
		return sdk.NewCoins(sdk.NewCoin("upokt", sdk.NewIntFromBigInt(new(big.Int).Add(big.NewInt(1), new(big.Int).SetBytes(r.Bytes(1+r.Intn(20)))))))
	}
}

func (g *Gen) memo() string {
	r := g.R
	switch r.Intn(5) {
	case 0:
		return ""
	case 1:
		return string(bytes.Repeat([]byte("m"), 256))
	case 2:
		return string(bytes.Repeat([]byte("m"), 257))
	case 3:
		return "mémo-メモ-\"quoted\"\\<>&"
	default:
		return fmt.Sprintf("memo %d", r.Intn(1000))
	}
}

func (g *Gen) msg() sdk.Msg {
	r := g.R
	switch r.Intn(7) {
	case 0:
		return posTypes.MsgStake{PubKey: sim.NewEdActor(g.Seed, r.Intn(50)).Pub, Value: g.intv()}
	case 1:
		return posTypes.MsgBeginUnstake{Address: g.addr()}
	case 2:
		return posTypes.MsgUnjail{ValidatorAddr: g.addr()}
	case 3:
		return posTypes.MsgSend{FromAddress: g.addr(), ToAddress: g.addr(), Amount: g.intv()}
	case 4:
		pv := r.Bytes(r.Intn(40))
		if r.Bool() {
			pv = []byte(g.jsonDoc(0)) // what real parameter changes carry: a JSON value
		}
		return govTypes.MsgChangeParam{FromAddress: g.addr(), ParamKey: []string{"pos/MaxValidators", "", "gov/acl", "a/b/c"}[r.Intn(4)], ParamVal: pv}
	case 5:
		return govTypes.MsgDAOTransfer{FromAddress: g.addr(), ToAddress: g.addr(), Amount: g.intv(), Action: []string{"dao_transfer", "dao_burn", "", "x"}[r.Intn(4)]}
	default:
		return govTypes.MsgUpgrade{Address: g.addr(), Upgrade: govTypes.Upgrade{Height: int64(r.U64() >> 1), Version: []string{"", "1.0.0", "v9"}[r.Intn(3)]}}
	}
}

func (g *Gen) entropy() int64 {
	switch g.R.Intn(5) {
	case 0:
		return 0
	case 1:
		return int64(1<<53) + int64(g.R.Intn(1000)) // beyond float64 integer precision
	case 2:
		return -int64(g.R.U64() >> 1)
	case 3:
		return int64(^uint64(0) >> 1)
	default:
		return int64(g.R.U64() >> 1)
	}
}

func (g *Gen) stdTx() authTypes.StdTx {
	var pk crypto.PublicKey
	if g.R.Chance(70) {
		pk = g.pub()
	}
	return authTypes.StdTx{Msg: g.msg(), Fee: g.coins(), Signature: authTypes.StdSignature{PublicKey: pk, Signature: g.R.Bytes(g.R.Intn(100))}, Memo: g.memo(), Entropy: g.entropy()}
}

func (g *Gen) timev() time.Time {
	switch g.R.Intn(4) {
	case 0:
		return time.Unix(0, 0).UTC()
	case 1:
		return time.Unix(253402300799, 0).UTC()
	default:
		return time.Unix(int64(g.R.U64()%4000000000), int64(g.R.Intn(1000000000))).UTC()
	}
}

// Value draws one value of a wire / storage type together with a constructor of an empty destination.
func (g *Gen) Value() (name string, val interface{}, dst func() interface{}) {
	r := g.R
	switch r.Intn(15) {
	case 0, 1, 2:
		return "StdTx", g.stdTx(), func() interface{} { return new(authTypes.StdTx) }
	case 3:
		var acc authTypes.BaseAccount
		acc.Address, acc.Coins = g.addr(), g.coins()
		if r.Bool() {
			acc.PubKey = g.pub()
		}
		return "BaseAccount", acc, func() interface{} { return new(authTypes.BaseAccount) }
	case 4:
		m := authTypes.NewEmptyModuleAccount([]string{"dao", "fee_collector", "x"}[r.Intn(3)], []string{"minter", "burner"}[:r.Intn(3)]...)
		m.Coins = g.coins()
		return "ModuleAccount", *m, func() interface{} { return new(authTypes.ModuleAccount) }
	case 5:
		v := posTypes.Validator{Address: g.addr(), PublicKey: sim.NewEdActor(g.Seed, r.Intn(50)).Pub, Jailed: r.Bool(), Status: sdk.StakeStatus(r.Intn(3)), StakedTokens: g.intv(), UnstakingCompletionTime: g.timev()}
		return "Validator", v, func() interface{} { return new(posTypes.Validator) }
	case 6:
		si := posTypes.ValidatorSigningInfo{Address: g.addr(), StartHeight: int64(r.U64() >> 1), IndexOffset: int64(r.Intn(1000)), JailedUntil: g.timev(), Tombstoned: r.Bool(), MissedBlocksCounter: int64(r.Intn(100))}
		return "ValidatorSigningInfo", si, func() interface{} { return new(posTypes.ValidatorSigningInfo) }
	case 7:
		p := posTypes.DefaultParams()
		p.UnstakingTime = time.Duration(r.U64() >> 2)
		p.MaxValidators = r.U64()
		p.MinSignedPerWindow, p.SlashFractionDoubleSign, p.SlashFractionDowntime = g.dec(), g.dec(), g.dec()
		p.StakeMinimum = int64(r.U64() >> 1)
		return "pos.Params", p, func() interface{} { return new(posTypes.Params) }
	case 8:
		p := authTypes.Params{MaxMemoCharacters: r.U64(), TxSigLimit: r.U64(), FeeMultiplier: authTypes.FeeMultipliers{Default: int64(r.Intn(10))}}
		if r.Bool() {
			p.FeeMultiplier.FeeMultis = []authTypes.FeeMultiplier{{Key: "send", Multiplier: int64(r.Intn(100))}}
		}
		return "auth.Params", p, func() interface{} { return new(authTypes.Params) }
	case 9:
		acl := govTypes.ACL{}
		for i := 0; i < r.Intn(4); i++ {
			acl.SetOwner(fmt.Sprintf("pos/K%d", i), sdk.Address(r.Bytes(24)[:20]))
		}
		p := govTypes.Params{ACL: acl, DAOOwner: g.addr(), Upgrade: govTypes.Upgrade{Height: int64(r.Intn(1000)), Version: "1.2.3"}}
		return "gov.Params", p, func() interface{} { return new(govTypes.Params) }
	case 10:
		return "Coins", g.coins(), func() interface{} { return new(sdk.Coins) }
	case 11:
		return "Int", g.intv(), func() interface{} { return new(sdk.Int) }
	case 12:
		return "Dec", g.dec(), func() interface{} { return new(sdk.Dec) }
	case 13:
		return "PublicKey", g.pub(), func() interface{} { return new(crypto.PublicKey) }
	default:
		return "Address", g.addr(), func() interface{} { return new(sdk.Address) }
	}
}

// RoundTrip checks decode(encode(x)) == x for amino binary and amino JSON.
func RoundTrip(cdc *codec.Codec, g *Gen, rep Reporter) {
	name, val, dst := g.Value()
	rep.Count("c20.roundtrip."+name, 1)
	for _, mode := range []string{"binary", "json"} {
		var enc []byte
		var err error
		p := catch(func() {
			if mode == "binary" {
				enc, err = cdc.MarshalBinaryLengthPrefixed(val)
			} else {
				enc, err = cdc.MarshalJSON(val)
			}
		})
		if p != nil || err != nil {
			rep.Violate("C20", "encode-fails/"+name+"/"+mode, fmt.Sprintf("encoding a %s failed: %v %v (%+v)", name, p, err, val))
			continue
		}
		d := dst()
		p = catch(func() {
			if mode == "binary" {
				err = cdc.UnmarshalBinaryLengthPrefixed(enc, d)
			} else {
				err = cdc.UnmarshalJSON(enc, d)
			}
		})
		if p != nil || err != nil {
			rep.Violate("C20", "decode-of-encoding-fails/"+name+"/"+mode, fmt.Sprintf("decoding the %s encoding of a %s failed: %v %v (%+v)", mode, name, p, err, val))
			continue
		}
		got := reflect.ValueOf(d).Elem()
		if ok, why := DeepEq(reflect.ValueOf(val), got); !ok {
			rep.Violate("C20", "roundtrip-changes-value/"+name+"/"+mode, fmt.Sprintf("%s %s round trip changed the value at %s: %+v -> %+v", name, mode, why, val, got.Interface()))
			continue
		}
		// re-encoding is stable
		var enc2 []byte
		catch(func() {
			if mode == "binary" {
				enc2, _ = cdc.MarshalBinaryLengthPrefixed(got.Interface())
			} else {
				enc2, _ = cdc.MarshalJSON(got.Interface())
			}
		})
		// (JSON writes an absent slice as null and an empty one as []: equivalent values, different text)
		if mode == "binary" && !bytes.Equal(enc, enc2) {
			rep.Violate("C20", "reencode-unstable/"+name+"/"+mode, fmt.Sprintf("%s: encode(decode(encode(x))) differs from encode(x)", name))
		}
		// decoding into a destination that is a plain copy of another live value (params := defaults; decode(&params))
		// must not write through to that value
		if g.R.Chance(25) {
			for try := 0; try < 40; try++ {
				n2, other, _ := g.Value()
				if n2 != name {
					continue
				}
				var encOther, encOtherAfter []byte
				if p := catch(func() { encOther, err = cdc.MarshalBinaryLengthPrefixed(other) }); p != nil || err != nil {
					break
				}
				d2 := reflect.New(reflect.TypeOf(other))
				d2.Elem().Set(reflect.ValueOf(other)) // shallow copy: shares every pointer with `other`
				p := catch(func() {
					if mode == "binary" {
						err = cdc.UnmarshalBinaryLengthPrefixed(enc, d2.Interface())
					} else {
						err = cdc.UnmarshalJSON(enc, d2.Interface())
					}
				})
				if p != nil || err != nil {
					break
				}
				rep.Count("c20.roundtrip.decodes_into_copies", 1)
				// Observation, not judged: sdk.Int's decoders reuse the destination's *big.Int, so the value the
				// destination was copied from changes too (as in upstream cosmos-sdk). The statement speaks about the
				// decoded value, not about other values sharing storage with the destination.
				catch(func() { encOtherAfter, _ = cdc.MarshalBinaryLengthPrefixed(other) })
				if !bytes.Equal(encOther, encOtherAfter) {
					rep.Count("c20.observed.decode_writes_through_a_shallow_copy", 1)
				}
				if ok, why := DeepEq(reflect.ValueOf(val), d2.Elem()); !ok {
					rep.Violate("C20", "decode-into-used-destination/"+name+"/"+mode, fmt.Sprintf("decoding a %s (%s) into a destination that held another value gives a different result at %s", name, mode, why))
				}
				break
			}
		}
	}
}

// SignBytes: same logical content through two encodings gives the same sign bytes; one changed field gives others.
func SignBytes(cdc *codec.Codec, g *Gen, rep Reporter) {
	tx := g.stdTx()
	chain := []string{"verif-chain", "", "other"}[g.R.Intn(3)]
	var base []byte
	var err error
	if p := catch(func() { base, err = authTypes.StdSignBytes(chain, tx.Entropy, tx.Fee, tx.Msg, tx.Memo) }); p != nil || err != nil {
		rep.Count("c20.signbytes.unsignable", 1)
		return
	}
	rep.Count("c20.signbytes.cases", 1)
	// through the binary and the JSON encoding
	for _, mode := range []string{"binary", "json"} {
		var back authTypes.StdTx
		var enc []byte
		var e2 error
		if mode == "binary" {
			enc, e2 = cdc.MarshalBinaryLengthPrefixed(tx)
			if e2 == nil {
				e2 = cdc.UnmarshalBinaryLengthPrefixed(enc, &back)
			}
		} else {
			enc, e2 = cdc.MarshalJSON(tx)
			if e2 == nil {
				e2 = cdc.UnmarshalJSON(enc, &back)
			}
		}
		if e2 != nil {
			rep.Violate("C20", "signbytes-roundtrip-error/"+mode, fmt.Sprintf("tx does not survive %s: %v", mode, e2))
			continue
		}
		sb, e3 := authTypes.StdSignBytes(chain, back.Entropy, back.Fee, back.Msg, back.Memo)
		if e3 != nil || !bytes.Equal(sb, base) {
			rep.Violate("C20", "signbytes-differ-across-encodings/"+mode, fmt.Sprintf("sign bytes of the same tx differ after a %s round trip:\n%s\n%s", mode, base, sb))
		}
	}
	// every single signed field matters
	alt := func(what string, f func() ([]byte, error)) {
		var sb []byte
		var e error
		if p := catch(func() { sb, e = f() }); p != nil || e != nil {
			return
		}
		rep.Count("c20.signbytes.field_mutations", 1)
		if bytes.Equal(sb, base) {
			rep.Violate("C20", "signbytes-ignore-field/"+what, fmt.Sprintf("changing %s leaves the sign bytes unchanged: %s", what, base))
		}
	}
	alt("chain-id", func() ([]byte, error) { return authTypes.StdSignBytes(chain+"x", tx.Entropy, tx.Fee, tx.Msg, tx.Memo) })
	alt("entropy", func() ([]byte, error) { return authTypes.StdSignBytes(chain, tx.Entropy^1, tx.Fee, tx.Msg, tx.Memo) })
	alt("memo", func() ([]byte, error) { return authTypes.StdSignBytes(chain, tx.Entropy, tx.Fee, tx.Msg, tx.Memo+"x") })
	alt("fee", func() ([]byte, error) {
		return authTypes.StdSignBytes(chain, tx.Entropy, tx.Fee.Add(sdk.NewCoins(sdk.NewInt64Coin("upokt", 1))), tx.Msg, tx.Memo)
	})
	// each message field
	for _, mm := range mutateMsg(tx.Msg, g) {
		mm := mm
		alt("msg."+mm.what, func() ([]byte, error) { return authTypes.StdSignBytes(chain, tx.Entropy, tx.Fee, mm.msg, tx.Memo) })
	}
}

type msgMut struct {
	what string
	msg  sdk.Msg
}

func other(a sdk.Address, g *Gen) sdk.Address {
	b := sdk.Address(g.R.Bytes(24)[:20])
	return b
}

func mutateMsg(m sdk.Msg, g *Gen) []msgMut {
	one := sdk.OneInt()
	switch x := m.(type) {
	case posTypes.MsgSend:
		a, b, c := x, x, x
		a.FromAddress, b.ToAddress = other(x.FromAddress, g), other(x.ToAddress, g)
		if p := catch(func() { c.Amount = x.Amount.Add(one) }); p != nil {
			return []msgMut{{"send.from", a}, {"send.to", b}}
		}
		return []msgMut{{"send.from", a}, {"send.to", b}, {"send.amount", c}}
	case posTypes.MsgStake:
		a, b := x, x
		a.PubKey = sim.NewEdActor(g.Seed, 1000+g.R.Intn(50)).Pub
		if p := catch(func() { b.Value = x.Value.Add(one) }); p != nil {
			return []msgMut{{"stake.pubkey", a}}
		}
		return []msgMut{{"stake.pubkey", a}, {"stake.value", b}}
	case posTypes.MsgBeginUnstake:
		a := x
		a.Address = other(x.Address, g)
		return []msgMut{{"unstake.address", a}}
	case posTypes.MsgUnjail:
		a := x
		a.ValidatorAddr = other(x.ValidatorAddr, g)
		return []msgMut{{"unjail.address", a}}
	case govTypes.MsgChangeParam:
		a, b, c := x, x, x
		a.FromAddress, b.ParamKey = other(x.FromAddress, g), x.ParamKey+"x"
		c.ParamVal = append(append([]byte{}, x.ParamVal...), 1)
		out := []msgMut{{"changeparam.from", a}, {"changeparam.key", b}, {"changeparam.value", c}}
		if len(x.ParamVal) > 0 {
			// other bytes spelling the same JSON value are still another transaction
			d, e := x, x
			d.ParamVal = append([]byte(" "), x.ParamVal...)
			e.ParamVal = append(append([]byte{}, x.ParamVal...), '\n')
			out = append(out, msgMut{"changeparam.value-whitespace", d}, msgMut{"changeparam.value-trailing-newline", e})
		}
		return out
	case govTypes.MsgDAOTransfer:
		a, b, c, d := x, x, x, x
		a.FromAddress, b.ToAddress, d.Action = other(x.FromAddress, g), other(x.ToAddress, g), x.Action+"x"
		out := []msgMut{{"dao.from", a}, {"dao.to", b}, {"dao.action", d}}
		if p := catch(func() { c.Amount = x.Amount.Add(one) }); p == nil {
			out = append(out, msgMut{"dao.amount", c})
		}
		return out
	case govTypes.MsgUpgrade:
		a, b, c := x, x, x
		a.Address = other(x.Address, g)
		b.Upgrade.Height ^= 1
		c.Upgrade.Version += "x"
		return []msgMut{{"upgrade.address", a}, {"upgrade.height", b}, {"upgrade.version", c}}
	}
	return nil
}

// HostileBytes derives a byte string from a valid encoding.
func HostileBytes(r *sim.Rand, valid []byte) []byte {
	switch r.Intn(9) {
	case 8:
		// length prefixes in unusual varint forms: padded, too long for 64 bits, unterminated
		k := []int{1, 2, 8, 9, 10, 11, 15}[r.Intn(7)]
		b := make([]byte, 0, k+1+len(valid))
		for i := 0; i < k; i++ {
			b = append(b, []byte{0x80, 0xff, 0x81}[r.Intn(3)])
		}
		if !r.Chance(20) {
			b = append(b, []byte{0x00, 0x01, 0x02, 0x7f}[r.Intn(4)])
		}
		if r.Bool() && len(valid) > 1 {
			b = append(b, valid[1:]...)
		}
		return b
	case 0:
		return r.Bytes(1 + r.Intn(300))
	case 1:
		if len(valid) > 2 {
			return append([]byte{}, valid[:1+r.Intn(len(valid)-1)]...)
		}
	case 2, 3:
		if len(valid) > 0 {
			b := append([]byte{}, valid...)
			for i := 0; i < 1+r.Intn(4); i++ {
				b[r.Intn(len(b))] ^= byte(1 << uint(r.Intn(8)))
			}
			return b
		}
	case 4:
		if len(valid) > 4 {
			b := append([]byte{}, valid...)
			binary.PutUvarint(b, uint64(r.Intn(1<<20))) // length prefix edits
			return b
		}
	case 5:
		if len(valid) > 8 {
			i, j := r.Intn(len(valid)), r.Intn(len(valid))
			if i > j {
				i, j = j, i
			}
			return append(append([]byte{}, valid[:i]...), valid[j:]...)
		}
	case 6:
		if len(valid) > 8 {
			i := r.Intn(len(valid) - 4)
			b := append([]byte{}, valid...)
			copy(b[i:], r.Bytes(4))
			return b
		}
	case 7:
		return append(append([]byte{}, valid...), r.Bytes(1+r.Intn(8))...)
	}
	return r.Bytes(16)
}

// HostileDecode: the network-facing tx decoder returns an error or a value that re-encodes consistently; never panics.
func HostileDecode(cdc *codec.Codec, g *Gen, rep Reporter) []byte {
	tx := g.stdTx()
	valid, err := cdc.MarshalBinaryLengthPrefixed(tx)
	if err != nil {
		return nil
	}
	bz := HostileBytes(g.R, valid)
	dec := authTypes.DefaultTxDecoder(cdc)
	if len(valid) > 0 && g.R.Chance(10) {
		// a complete, valid encoding followed by more bytes is not an encoding of a transaction
		ext := append(append([]byte{}, valid...), g.R.Bytes(1+g.R.Intn(4))...)
		var derr sdk.Error
		if p := catch(func() { _, derr = dec(ext) }); p != nil {
			rep.Violate("C20", "tx-decoder-panic", fmt.Sprintf("DefaultTxDecoder panicked on %x: %v", ext, p))
		} else if derr == nil {
			rep.Violate("C20", "tx-decoder-accepts-trailing-bytes", fmt.Sprintf("DefaultTxDecoder accepted a valid transaction encoding followed by %d more byte(s): two byte strings (two hashes) for one signed transaction", len(ext)-len(valid)))
		}
		rep.Count("c20.hostile.trailing_bytes", 1)
	}
	var out sdk.Tx
	var derr sdk.Error
	rep.Count("c20.hostile.decodes", 1)
	if p := catch(func() { out, derr = dec(bz) }); p != nil {
		rep.Violate("C20", "tx-decoder-panic", fmt.Sprintf("DefaultTxDecoder panicked on %x: %v", bz, p))
		return bz
	}
	if derr != nil {
		rep.Count("c20.hostile.rejected", 1)
		return bz
	}
	rep.Count("c20.hostile.accepted", 1)
	// an accepted decode re-encodes stably
	var enc1 []byte
	if p := catch(func() { enc1, err = cdc.MarshalBinaryLengthPrefixed(out) }); p != nil || err != nil {
		rep.Violate("C20", "accepted-decode-does-not-reencode", fmt.Sprintf("decoded tx of %x cannot be re-encoded: %v %v", bz, p, err))
		return bz
	}
	out2, derr2 := dec(enc1)
	if derr2 != nil {
		rep.Violate("C20", "reencoded-tx-rejected", fmt.Sprintf("re-encoding of an accepted decode (%x) is rejected", bz))
		return bz
	}
	enc2, _ := cdc.MarshalBinaryLengthPrefixed(out2)
	if !bytes.Equal(enc1, enc2) {
		rep.Violate("C20", "reencode-unstable/hostile", fmt.Sprintf("accepted decode of %x does not re-encode stably", bz))
	}
	return bz
}

// HostileNumbers: Int/Dec/Uint text decoders refuse out-of-range or malformed input without panicking.
func HostileNumbers(cdc *codec.Codec, g *Gen, rep Reporter) {
	r := g.R
	var s string
	inRange := true
	switch r.Intn(6) {
	case 0:
		x := new(big.Int).Lsh(big.NewInt(1), uint(250+r.Intn(12)))
		if r.Bool() {
			x.Neg(x)
		}
		inRange = x.BitLen() <= 255
		s = x.String()
	case 1:
		s = "12a34"
		inRange = false
	case 2:
		s = ""
		inRange = false
	case 3:
		s = "-"
		inRange = false
	case 4:
		s = fmt.Sprintf("%d", r.U64())
	default:
		s = "12 34"
		inRange = false
	}
	rep.Count("c20.hostile.numbers", 1)
	var i sdk.Int
	var err error
	if p := catch(func() { err = cdc.UnmarshalJSON([]byte(`"`+s+`"`), &i) }); p != nil {
		rep.Violate("C20", "int-json-decode-panic", fmt.Sprintf("decoding Int from %q panicked: %v", s, p))
	} else if err == nil && !inRange {
		rep.Violate("C20", "int-json-accepts-invalid", fmt.Sprintf("Int JSON decoder accepted %q -> %v", s, i))
	} else if err != nil && inRange {
		rep.Violate("C20", "int-json-rejects-valid", fmt.Sprintf("Int JSON decoder rejected %q: %v", s, err))
	}
	// Dec: more than 18 decimals / garbage
	ds := []string{"1.0000000000000000001", "1..2", "abc", "1e5", ".5", "5.", "-", "--1", "1.5", "-0.000000000000000001"}[r.Intn(10)]
	var d sdk.Dec
	if p := catch(func() { err = cdc.UnmarshalJSON([]byte(`"`+ds+`"`), &d) }); p != nil {
		rep.Violate("C20", "dec-json-decode-panic", fmt.Sprintf("decoding Dec from %q panicked: %v", ds, p))
	}
}

// Keys: composite store keys decode to their inputs and order like their inputs.
func Keys(g *Gen, rep Reporter) {
	r := g.R
	rep.Count("c20.keys.cases", 1)
	mkVal := func() posTypes.Validator {
		var tok *big.Int
		switch r.Intn(4) {
		case 0:
			tok = big.NewInt(int64(r.Intn(3)) * 1000000)
		case 1:
			tok = new(big.Int).Mul(big.NewInt(int64(r.U64()>>1)), big.NewInt(1000000)) // power up to 2^63-1
		default:
			tok = big.NewInt(int64(r.U64() >> uint(1+r.Intn(62))))
		}
		return posTypes.Validator{Address: sdk.Address(r.Bytes(24)[:20]), StakedTokens: sdk.NewIntFromBigInt(tok), Status: sdk.Staked}
	}
	a, b := mkVal(), mkVal()
	if r.Chance(30) {
		b.StakedTokens = a.StakedTokens // equal powers: the address decides
	}
	if r.Chance(10) {
		copy(b.Address, a.Address)
		b.Address[19] ^= 1
	}
	ka, kb := posTypes.KeyForValidatorInStakingSet(a), posTypes.KeyForValidatorInStakingSet(b)
	kaCopy := append([]byte{}, ka...)
	if ad := posTypes.ParseValidatorPowerRankKey(ka); !bytes.Equal(ad, a.Address) {
		rep.Violate("C20", "power-key-address-decode", fmt.Sprintf("power-rank key of %x decodes to address %x", a.Address, ad))
	} else if ad2 := posTypes.ParseValidatorPowerRankKey(ka); !bytes.Equal(ka, kaCopy) || !bytes.Equal(ad2, a.Address) || !bytes.Equal(ad, a.Address) {
		rep.Violate("C20", "power-key-decode-mutates-key", fmt.Sprintf("decoding the power-rank key of %x changed the key or an earlier result: key %x -> %x, first result now %x, second result %x", a.Address, kaCopy, ka, ad, ad2))
	}
	pa := new(big.Int).Quo(a.StakedTokens.BigInt(), big.NewInt(1000000))
	pb := new(big.Int).Quo(b.StakedTokens.BigInt(), big.NewInt(1000000))
	if len(ka) != 29 || ka[0] != 0x23 || new(big.Int).SetBytes(ka[1:9]).Cmp(pa) != 0 {
		rep.Violate("C20", "power-key-power-decode", fmt.Sprintf("power-rank key %x does not hold power %v big-endian", ka, pa))
	}
	// order: higher power sorts later; for equal power the lower address sorts later (reverse iteration = power desc, address asc)
	want := pa.Cmp(pb)
	if want == 0 {
		want = -bytes.Compare(a.Address, b.Address)
	}
	if got := bytes.Compare(ka, kb); got != want {
		rep.Violate("C20", "power-key-order", fmt.Sprintf("keys of (power %v, %x) and (power %v, %x) compare %d, values compare %d", pa, a.Address, pb, b.Address, got, want))
	}
	// unstaking queue keys: chronological
	t1, t2 := g.timev(), g.timev()
	if r.Chance(30) {
		t2 = t1.Add(time.Duration(r.Intn(3)-1) * time.Nanosecond)
	}
	// the same instants expressed in other time zones (a node whose local zone is not UTC, times parsed from
	// RFC 3339 text with an offset): keys are about instants, not wall clocks
	if r.Chance(40) {
		t1 = t1.In(time.FixedZone("east", int(r.PickI64(3600, 9*3600, 19800, 14*3600))))
		rep.Count("c20.keys.non_utc_times", 1)
	}
	if r.Chance(30) {
		t2 = t2.In(time.FixedZone("west", -int(r.PickI64(3600, 5*3600, 12*3600))))
	}
	if t1.Year() < 9999 && t2.Year() < 9999 && t1.Year() >= 1970 && t2.Year() >= 1970 {
		k1, k2 := posTypes.KeyForUnstakingValidators(t1), posTypes.KeyForUnstakingValidators(t2)
		c := 0
		if t1.Before(t2) {
			c = -1
		} else if t1.After(t2) {
			c = 1
		}
		if got := bytes.Compare(k1, k2); got != c {
			rep.Violate("C20", "queue-key-order", fmt.Sprintf("queue keys of %v and %v compare %d, times compare %d", t1, t2, got, c))
		}
		if back, err := sdk.ParseTimeBytes(k1[1:]); err != nil || !back.Equal(t1) {
			rep.Violate("C20", "queue-key-decode", fmt.Sprintf("queue key of %v decodes to %v (%v)", t1, back, err))
		}
	}
	// address keys
	ad := sdk.Address(r.Bytes(24)[:20])
	if r.Chance(25) {
		ad = sdk.Address(r.Bytes(48)[:1+r.Intn(40)]) // the application accepts addresses of any length as recipients
	}
	if len(ad) != 20 {
		// (signing-info and power-rank keys are only ever built for validator addresses, which are 20 bytes; their decoders
		// refuse other lengths by design)
		if !bytes.Equal(posTypes.AddressFromKey(posTypes.KeyForValByAllVals(ad)), ad) ||
			!bytes.Equal(posTypes.AddressFromKey(posTypes.KeyForValidatorAward(ad)), ad) ||
			!bytes.Equal(posTypes.AddressFromKey(posTypes.KeyForValidatorBurn(ad)), ad) {
			rep.Violate("C20", "address-key-decode/length", fmt.Sprintf("an address key of the %d-byte address %x does not decode to the address", len(ad), ad))
		}
		return
	}
	if !bytes.Equal(posTypes.AddressFromKey(posTypes.KeyForValByAllVals(ad)), ad) ||
		!bytes.Equal(posTypes.GetValidatorSigningInfoAddress(posTypes.GetValidatorSigningInfoKey(ad)), ad) ||
		!bytes.Equal(posTypes.AddressFromKey(posTypes.KeyForValidatorAward(ad)), ad) ||
		!bytes.Equal(posTypes.AddressFromKey(posTypes.KeyForValidatorBurn(ad)), ad) ||
		!bytes.Equal(posTypes.AddressFromKey(posTypes.KeyForValidatorPrevStateStateByPower(ad)), ad) {
		rep.Violate("C20", "address-key-decode", fmt.Sprintf("an address key of %x does not decode to the address", ad))
	}
	idx := int64(r.U64() >> 1)
	mk := posTypes.GetValMissedBlockKey(ad, idx)
	if !bytes.HasPrefix(mk, posTypes.GetValMissedBlockPrefixKey(ad)) || int64(binary.LittleEndian.Uint64(mk[len(mk)-8:])) != idx {
		rep.Violate("C20", "missed-key-decode", fmt.Sprintf("missed-block key of (%x,%d) does not decode", ad, idx))
	}
	// hex address text round trip
	if back, err := sdk.AddressFromHex(ad.String()); err != nil || !bytes.Equal(back, ad) {
		rep.Violate("C20", "address-hex-roundtrip", fmt.Sprintf("address %x -> %q -> %x (%v)", ad, ad.String(), back, err))
	}
}
